// C17: `reserve` through the typed handle vs. through `&dyn BumpAllocatorCore`, from equal states.
use bump_scope::{Bump, alloc::Global, settings::BumpSettings, traits::{BumpAllocatorCore, BumpAllocatorTyped}};
#[test]
fn reserve_typed_vs_dyn() {
    type B = Bump<Global, BumpSettings<1, true>>;
    let x: B = Bump::with_size(64);
    let y: B = Bump::with_size(64);
    x.alloc(1u8);
    y.alloc(1u8);
    let n = x.stats().remaining() + 100; // more than the current chunk holds
    x.reserve(n);
    let dy: &dyn BumpAllocatorCore = &y;
    dy.reserve(n);
    println!("typed: count={} allocated={}   dyn: count={} allocated={}", x.stats().count(), x.stats().allocated(), y.stats().count(), y.stats().allocated());
    assert_eq!(x.stats().allocated(), y.stats().allocated(), "reserve through typed handle and through dyn left different allocated byte counts");
}
