#![cfg(all(feature = "std", feature = "panic-on-alloc"))]
use bump_scope::{Bump, traits::{BumpAllocatorCore, BumpAllocatorTyped}};
use core::alloc::Layout;

#[test]
fn typed_claimed_panics_unwinding() {
    let bump: Bump = Bump::new();
    let _g = bump.claim();
    let r = std::panic::catch_unwind(std::panic::AssertUnwindSafe(|| {
        let _ = bump.allocate_layout(Layout::new::<u32>());
    }));
    let msg = r.unwrap_err();
    let s = msg.downcast_ref::<&str>().map(|s| s.to_string()).or(msg.downcast_ref::<String>().cloned()).unwrap();
    assert!(s.contains("claimed"), "{s}");
}

#[test]
fn dyn_claimed_panics_unwinding() {
    let bump: Bump = Bump::new();
    let _g = bump.claim();
    let d: &dyn BumpAllocatorCore = &bump;
    let r = std::panic::catch_unwind(std::panic::AssertUnwindSafe(|| {
        let _ = d.allocate_layout(Layout::new::<u32>());
    }));
    let msg = r.unwrap_err();
    let s = msg.downcast_ref::<&str>().map(|s| s.to_string()).or(msg.downcast_ref::<String>().cloned()).unwrap();
    assert!(s.contains("claimed"), "{s}");
}
