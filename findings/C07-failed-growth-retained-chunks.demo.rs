//! A failed growth of a `MutBumpVec` that walked over cached chunks leaves the arena on another chunk;
//! `into_slice` then sets the position of that *other* chunk to an address inside the vector's chunk.
use bump_scope::alloc::{AllocError, Allocator, Global};
use bump_scope::traits::BumpAllocatorTyped;
use bump_scope::{Bump, MutBumpVec};
use std::alloc::Layout;
use std::cell::Cell;
use std::ptr::NonNull;

#[derive(Clone)]
struct Gate<'a>(&'a Cell<bool>);

unsafe impl Allocator for Gate<'_> {
    fn allocate(&self, layout: Layout) -> Result<NonNull<[u8]>, AllocError> {
        if self.0.get() { Global.allocate(layout) } else { Err(AllocError) }
    }
    unsafe fn deallocate(&self, ptr: NonNull<u8>, layout: Layout) {
        unsafe { Global.deallocate(ptr, layout) }
    }
}

#[test]
fn failed_growth_then_into_slice() {
    let open = Cell::new(true);
    let mut bump: Bump<Gate> = Bump::new_in(Gate(&open));
    // a second chunk, acquired inside a scope, stays cached behind the first one
    bump.scoped(|s| {
        s.allocate_layout(Layout::from_size_align(2000, 1).unwrap());
    });
    assert_eq!(bump.stats().count(), 2);
    let first_chunk = bump.stats().current_chunk().unwrap();
    let (c1s, c1e) = (first_chunk.chunk_start().as_ptr() as usize, first_chunk.chunk_end().as_ptr() as usize);
    assert!(first_chunk.next().is_some());
    let before = bump.alloc(0xAAu8).into_raw().as_ptr() as usize;
    assert!(c1s <= before && before < c1e);

    let mut v = MutBumpVec::<u8, _>::new_in(&mut bump);
    v.extend_from_slice_copy(&[1, 2, 3, 4]);
    let data = v.as_ptr() as usize;
    assert!(c1s <= data && data < c1e, "vector lives in the first chunk");
    // the base allocator refuses from now on: growing beyond both chunks fails
    open.set(false);
    assert!(v.try_reserve(100_000).is_err());
    assert_eq!(&*v, &[1, 2, 3, 4], "previous length and contents");
    let slice = v.into_slice();
    assert_eq!(slice, &[1, 2, 3, 4]);
    let slice_addr = slice.as_ptr() as usize;

    // invariants of the arena
    let cur = bump.stats().current_chunk().unwrap();
    let (cs, ce) = (cur.chunk_start().as_ptr() as usize, cur.chunk_end().as_ptr() as usize);
    let pos = cur.bump_position().as_ptr() as usize;
    assert!(cs <= pos && pos <= ce, "bump position {pos:#x} outside of the current chunk {cs:#x}..{ce:#x} (vector chunk {c1s:#x}..{c1e:#x})");
    // and it keeps working: new allocations are inside owned memory and disjoint from the slice
    let p = bump.allocate_layout(Layout::from_size_align(64, 1).unwrap()).as_ptr() as usize;
    assert!(p + 64 <= slice_addr || slice_addr + 4 <= p);
    assert!((c1s <= p && p + 64 <= c1e) || (cs <= p && p + 64 <= ce), "block {p:#x} outside of every chunk");
}
