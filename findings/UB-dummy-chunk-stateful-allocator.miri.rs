use bump_scope::alloc::{AllocError, Allocator, Global};
use bump_scope::settings::BumpSettings;
use bump_scope::Bump;
use core::alloc::Layout;
use core::ptr::NonNull;

/// a base allocator with 8 bytes of state: ChunkHeader<Stateful> is 48 bytes, the static dummy chunk 32
#[derive(Clone, Default)]
struct Stateful(#[allow(dead_code)] u64);

unsafe impl Allocator for Stateful {
    fn allocate(&self, layout: Layout) -> Result<NonNull<[u8]>, AllocError> {
        Global.allocate(layout)
    }
    unsafe fn deallocate(&self, ptr: NonNull<u8>, layout: Layout) {
        unsafe { Global.deallocate(ptr, layout) }
    }
}

fn main() {
    // unallocated arena with a stateful allocator: the first allocation reads the dummy chunk header
    let bump: Bump<Stateful, BumpSettings<1, true, false>> = Bump::unallocated();
    let x = bump.alloc(5u32);
    assert_eq!(*x, 5);
    println!("ok");
}
