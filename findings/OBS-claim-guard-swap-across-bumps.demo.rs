#![cfg(all(feature = "std", feature = "panic-on-alloc"))]
use bump_scope::Bump;
#[test]
fn swap_claim_guards() {
    let bump1: Bump = Bump::new();
    let bump2: Bump = Bump::new();
    let c1 = bump1.stats().current_chunk().unwrap().chunk_start();
    let c2 = bump2.stats().current_chunk().unwrap().chunk_start();
    {
        let mut g1 = bump1.claim();
        let mut g2 = bump2.claim();
        std::mem::swap(&mut *g1, &mut *g2);
    }
    let n1 = bump1.stats().current_chunk().unwrap().chunk_start();
    let n2 = bump2.stats().current_chunk().unwrap().chunk_start();
    assert_eq!((n1, n2), (c1, c2), "after the guards are gone each Bump must be back on its own chunk");
    core::mem::forget(bump1);
    core::mem::forget(bump2);
}
