"""Run one Kani harness and judge its output.  Stdlib only."""
import os, re, subprocess, time, json, shlex

VERIF = os.path.dirname(os.path.dirname(os.path.abspath(__file__)))
CACHE = os.path.join(VERIF, ".cache")

CHECK_RE = re.compile(
    r"^Check (\d+): ([^\n]+)\n\t - Status: (\w+)\n\t - Description: \"(.*?)\"\n(?:\t - Location: (.*?)\n)?",
    re.M | re.S,
)

# failed checks located here are models of the tool, never of bump-scope (DESIGN.md 2.7)
TOOL_MODEL_FUNCS = re.compile(r"(__rust_realloc|__rust_alloc\b|__rust_dealloc|__rust_alloc_zeroed|kani::|kani_core|library/kani)")


def env():
    e = dict(os.environ)
    e["CARGO_NET_OFFLINE"] = "true"
    e.setdefault("CARGO_TERM_COLOR", "never")
    e.pop("RUSTUP_TOOLCHAIN", None)
    return e


def parse(out):
    """Return dict with checks, covers, summary, cbmc statistics."""
    checks = []
    for m in CHECK_RE.finditer(out):
        n, name, status, desc, loc = m.groups()
        func = ""
        where = loc or ""
        if loc and " in function " in loc:
            where, func = loc.split(" in function ", 1)
        checks.append(
            {"n": int(n), "name": name, "status": status, "desc": desc, "where": where.strip(), "func": func.strip()}
        )
    res = {"checks": checks}
    m = re.search(r"VERIFICATION:- (\w+)", out)
    res["verification"] = m.group(1) if m else None
    res["symex_s"] = sum(float(x) for x in re.findall(r"Runtime Symex: ([0-9.e+-]+)s", out))
    res["solver_s"] = sum(float(x) for x in re.findall(r"Runtime Solver: ([0-9.e+-]+)s", out))
    res["solver_calls"] = len(re.findall(r"Runtime Solver: ", out))
    vc = re.findall(r"(\d+) variables, (\d+) clauses", out)
    res["variables"] = max([int(a) for a, _ in vc], default=0)
    res["clauses"] = max([int(b) for _, b in vc], default=0)
    m = re.search(r"Generated (\d+) VCC\(s\), (\d+) remaining", out)
    res["vccs"] = int(m.group(1)) if m else 0
    res["vccs_remaining"] = int(m.group(2)) if m else 0
    m = re.search(r"Verification Time: ([0-9.]+)s", out)
    res["kani_time_s"] = float(m.group(1)) if m else None
    res["stubs"] = re.findall(r"- Stub: (.*)", out)
    res["cbmc_error"] = bool(re.search(r"Status: ERROR|CBMC failed|out of memory|std::bad_alloc|Killed|signal", out)) and not m
    return res


def is_cover(c):
    return ".cover." in c["name"] or c["status"] in ("SATISFIED", "UNSATISFIABLE")


def judge(h, parsed, rc, timed_out, out):
    """Return (verdict, reasons, failed_checks, cover_summary).
    verdict in pass | violation | inconclusive"""
    reasons = []
    checks = parsed["checks"]
    covers = [c for c in checks if is_cover(c)]
    asserts = [c for c in checks if not is_cover(c)]
    failed = [c for c in asserts if c["status"] == "FAILURE"]
    undet = [c for c in asserts if c["status"] == "UNDETERMINED"]
    cov = {"satisfied": 0, "unsat_expected": 0, "bad": []}
    if timed_out:
        return "inconclusive", ["timeout after %ss" % h["timeout_s"]], failed, cov
    if re.search(r"Out of memory|CBMC failed with status|std::bad_alloc", out):
        return "inconclusive", ["CBMC ran out of memory or crashed (never a pass)"], failed, cov
    if any(c["status"] == "ERROR" for c in checks):
        return "inconclusive", ["CBMC reported ERROR statuses (solver out of memory or failed): never a pass"], failed, cov
    if parsed["verification"] is None:
        tail = out[-600:].replace("\n", " | ")
        return "inconclusive", ["no verdict from Kani/CBMC (rc=%s): %s" % (rc, tail)], failed, cov
    # unwinding assertions
    unw = [c for c in failed if "unwinding assertion" in c["desc"]]
    if unw:
        return "inconclusive", ["unwinding assertion failed: bound too small (%s)" % unw[0]["desc"]], failed, cov
    unsupported = [c for c in failed if "unsupported_construct" in c["name"] or "is not currently supported by Kani" in c["desc"]]
    # covers
    tags = set(h.get("tags", []))
    # twin covers of the `check!` oracles (cover of the negated assertion, same description): they are satisfied exactly
    # when the assertion fails, exist only to obtain a concrete-playback test, and are no vacuity witnesses
    twin_descs = {c["desc"].strip('"') for c in asserts}
    for c in covers:
        if c["desc"].strip('"') in twin_descs:
            continue
        m = re.match(r"\[([\w-]+)\]", c["desc"])
        if m and not (set(m.group(1).split("-")) <= tags):
            # witness of a branch this instantiation cannot take (e.g. chunk switch with budget 0): not required
            continue
        want_unsat = c["desc"].startswith("UNSAT:")
        if want_unsat:
            if c["status"] in ("UNSATISFIABLE", "UNREACHABLE"):
                cov["unsat_expected"] += 1
            else:
                cov["bad"].append(c)
        else:
            if c["status"] == "SATISFIED":
                cov["satisfied"] += 1
            else:
                cov["bad"].append(c)
    kind = h.get("kind", "proof")
    exp = [re.compile(x) for x in h.get("expect_fail", [])]

    def expected(c):
        s = c["desc"] + " @ " + c["func"] + " @ " + c["name"]
        return any(r.search(s) for r in exp)

    if kind in ("canary", "must_panic"):
        hits = [c for c in failed if expected(c)]
        rest = [c for c in failed if not expected(c) and c not in unsupported]
        if kind == "canary":
            if not failed:
                return "inconclusive", ["canary was NOT refuted: the harness family may be vacuous"], failed, cov
            if rest and not hits:
                return "inconclusive", ["canary failed for an unexpected reason: %s" % rest[0]["desc"]], failed, cov
            return "pass", reasons, [], cov
        # must_panic: the expected panic check fails, nothing else fails, "returned normally" covers are UNSAT
        # `forbid_fail`: failure sites that ARE the violation for this harness (e.g. the allocation-error handler - which
        # aborts - where the property demands the unwinding "claimed" panic). Opt-in per harness: in general a panic
        # through another function than the expected one is only *inconclusive* (a refactoring may rename the site).
        forbid = [re.compile(x) for x in h.get("forbid_fail", [])]
        forbidden = [c for c in failed if any(r.search(c["desc"] + " @ " + c["func"] + " @ " + c["name"]) for r in forbid)]
        if forbidden:
            return "violation", ["the method ended in a failure path the property excludes: %s" % forbidden[0]["desc"]], forbidden, cov
        if not hits:
            # no panic reachable at all => the method returned normally or diverged silently
            bad_unsat = [c for c in cov["bad"] if c["desc"].startswith("UNSAT:")]
            if bad_unsat:
                return "violation", ["panicking method returned normally: %s" % bad_unsat[0]["desc"]], bad_unsat, cov
            return "inconclusive", ["expected panic check not found among failures"], failed, cov
        bad_unsat = [c for c in cov["bad"] if c["desc"].startswith("UNSAT:")]
        if bad_unsat:
            return "violation", ["panicking method can return normally: %s" % bad_unsat[0]["desc"]], bad_unsat, cov
        bad_sat = [c for c in cov["bad"] if not c["desc"].startswith("UNSAT:")]
        if bad_sat:
            return "inconclusive", ["vacuity witness not satisfied: %s" % bad_sat[0]["desc"]], failed, cov
        if rest:
            tool = [c for c in rest if TOOL_MODEL_FUNCS.search(c["func"] + c["where"])]
            if len(tool) == len(rest):
                return "inconclusive", ["failed check inside the tool's own model: %s" % rest[0]["desc"]], rest, cov
            return "violation", ["unexpected failed check: %s" % rest[0]["desc"]], rest, cov
        return "pass", reasons, [], cov

    # ordinary proof harness
    if any("copy_stub: count beyond the modelled bound" in c["desc"] for c in failed):
        return "inconclusive", ["a copy exceeded the bound of the copy stub (environment model too small)"], failed, cov
    if failed:
        real = [c for c in failed if c not in unsupported]
        if not real:
            return "inconclusive", ["reachable unsupported construct: %s" % failed[0]["desc"]], failed, cov
        tool = [c for c in real if TOOL_MODEL_FUNCS.search(c["func"] + c["where"])]
        if len(tool) == len(real):
            return "inconclusive", ["failed check inside the tool's own model (artifact suspected): %s in %s" % (real[0]["desc"], real[0]["func"])], real, cov
        return "violation", ["failed check: %s" % real[0]["desc"]], [c for c in real if c not in tool], cov
    if undet:
        # CBMC reports some properties as UNKNOWN in multi-property runs although they are SUCCESS when checked alone
        # (measured, DESIGN.md 2.8). They are never counted as discharged; a harness-level oracle that stays
        # undetermined makes the run inconclusive.
        own = [c for c in undet if c["where"].startswith("src/") or "copy_stub" in c["desc"]]
        if own:
            return "inconclusive", ["undetermined harness-level check: %s" % own[0]["desc"]], failed, cov
        reasons.append("%d checks left UNDETERMINED by CBMC (not counted as discharged), e.g. %s" % (len(undet), undet[0]["func"]))
    if parsed["verification"] != "SUCCESSFUL":
        # covers unsatisfied make Kani print FAILED? (no: covers do not affect). Anything else is inconclusive.
        return "inconclusive", ["Kani verdict %s without a failed check" % parsed["verification"]], failed, cov
    if cov["bad"]:
        c = cov["bad"][0]
        if c["desc"].startswith("UNSAT:"):
            return "violation", ["reachability that must be impossible: %s" % c["desc"]], [c], cov
        return "inconclusive", ["vacuity witness not satisfied: \"%s\" is %s" % (c["desc"], c["status"])], failed, cov
    return "pass", reasons, [], cov


_HASHES = {}

# files of a harness crate that other modules of that crate use (besides common.rs): a change there invalidates all
SHARED = {"kani-pure": ["c11.rs"], "kani-slice": ["common.rs", "boxed.rs"], "kani-arena": ["common.rs"]}


def _hash_files(files):
    import hashlib

    hsh = hashlib.sha256()
    for f in sorted(files):
        hsh.update(f.encode() + b"\0")
        try:
            hsh.update(open(f, "rb").read())
        except OSError:
            hsh.update(b"<missing>")
        hsh.update(b"\0")
    return hsh.hexdigest()


def repo_hash():
    """Content hash of /repo (sources and manifests) + shared stubs + tool versions."""
    if "repo" in _HASHES:
        return _HASHES["repo"]
    roots = ["/repo/src", "/repo/Cargo.toml", "/repo/Cargo.lock", "/repo/crates", os.path.join(VERIF, "lib", "kani_stubs.rs")]
    files = []
    for r in roots:
        if os.path.isfile(r):
            files.append(r)
        elif os.path.isdir(r):
            for d, dn, fn in os.walk(r):
                dn[:] = [x for x in dn if x not in ("target", ".git")]
                for f in fn:
                    files.append(os.path.join(d, f))
    _HASHES["repo"] = _hash_files(files) + "|kani-0.68.0|cbmc-6.11.0"
    return _HASHES["repo"]


def tree_hash(h=None):
    """Everything the verdict of harness h depends on: /repo, the stubs, the tool versions, the harness crate's
    manifest, the files shared inside that crate and the module file the harness lives in. A verdict is reused only
    when all of these are byte-identical."""
    if h is None:
        return repo_hash()
    crate = h["crate"]
    mod = h["path"].split("::")[0] + ".rs"
    key = crate + "/" + mod
    if key not in _HASHES:
        src = os.path.join(VERIF, crate, "src")
        files = [os.path.join(VERIF, crate, "Cargo.toml"), os.path.join(src, mod)] + [os.path.join(src, f) for f in SHARED.get(crate, [])]
        _HASHES[key] = _hash_files(files)
    return repo_hash() + "|" + _HASHES[key]


def cache_path(h):
    import hashlib

    key = hashlib.sha256((tree_hash(h) + "|" + h["crate"] + "|" + h["path"] + "|" + json.dumps([h.get("kind"), h.get("expect_fail"), h.get("stubbing"), h.get("cbmc_args"), h.get("tags")]) + (json.dumps(h["forbid_fail"]) if h.get("forbid_fail") else "")).encode()).hexdigest()
    return os.path.join(CACHE, "results", key + ".json")


def kani_cmd(h, target_dir, extra=()):
    cmd = ["cargo", "kani", "--target-dir", target_dir, "--harness", h["path"], "--exact"]
    z = []
    if h.get("stubbing"):
        z += ["-Z", "stubbing"]
    cb = list(h.get("cbmc_args", []))
    if cb:
        z += ["-Z", "unstable-options"]
    cmd += z
    cmd += list(extra)
    if cb:
        cmd += ["--cbmc-args"] + cb
    return cmd


def run_harness(h, target_dir, log_path=None, extra=(), use_cache=True):
    """Run cargo kani for harness h (dict). Returns result dict.
    A harness shared by several properties is solved once per source tree: the verdict is stored under a
    content hash of all inputs (tree_hash) and reused only when every input is byte-identical."""
    cp = cache_path(h)
    if use_cache and os.environ.get("VERIF_NO_CACHE") != "1" and os.path.exists(cp):
        try:
            r = json.load(open(cp))
            if r.get("verdict") in ("pass", "violation"):
                r["reused"] = True
                return r
        except Exception:
            pass
    r = _run_harness(h, target_dir, log_path, extra)
    if r["verdict"] in ("pass", "violation") and not extra:
        os.makedirs(os.path.dirname(cp), exist_ok=True)
        with open(cp, "w") as f:
            json.dump(r, f)
    return r


def _run_harness(h, target_dir, log_path=None, extra=()):
    crate_dir = os.path.join(VERIF, h["crate"])
    cmd = kani_cmd(h, target_dir, extra)
    mem_kb = int(h.get("mem_gb", 4) * 1.6 * 1024 * 1024) + 4 * 1024 * 1024
    timeout_s = int(h["timeout_s"])
    shell = "ulimit -v %d; exec /usr/bin/time -f 'MAXRSS_KB=%%M' timeout -k 10 %d %s" % (
        mem_kb,
        timeout_s,
        " ".join(shlex.quote(c) for c in cmd),
    )
    t0 = time.time()
    p = subprocess.run(["bash", "-c", shell], cwd=crate_dir, env=env(), stdout=subprocess.PIPE, stderr=subprocess.STDOUT, text=True, errors="replace")
    wall = time.time() - t0
    out = p.stdout
    if log_path:
        os.makedirs(os.path.dirname(log_path), exist_ok=True)
        with open(log_path, "w") as f:
            f.write("$ " + shell + "\n" + out)
    m = re.search(r"MAXRSS_KB=(\d+)", out)
    rss_mb = int(m.group(1)) // 1024 if m else None
    timed_out = p.returncode == 124 or p.returncode == 137
    parsed = parse(out)
    build_failed = "error: could not compile" in out or "error[E" in out
    if build_failed and parsed["verification"] is None:
        verdict, reasons, failed, cov = "inconclusive", ["harness crate does not compile against /repo (encoder cannot reach the code)"], [], {"satisfied": 0, "unsat_expected": 0, "bad": []}
        errs = re.findall(r"^error.*$", out, re.M)[:3]
        reasons += errs
    else:
        verdict, reasons, failed, cov = judge(h, parsed, p.returncode, timed_out, out)
    return {
        "harness": h["path"],
        "crate": h["crate"],
        "verdict": verdict,
        "reasons": reasons,
        "failed": failed,
        "covers_satisfied": cov["satisfied"],
        "covers_unsat_as_required": cov["unsat_expected"],
        "covers_bad": cov["bad"],
        "n_checks": len([c for c in parsed["checks"] if not is_cover(c)]),
        "n_undetermined": len([c for c in parsed["checks"] if not is_cover(c) and c["status"] == "UNDETERMINED"]),
        "n_reachable_checks": len([c for c in parsed["checks"] if not is_cover(c) and c["status"] != "UNREACHABLE"]),
        "n_repo_checks": len([c for c in parsed["checks"] if "repo/src" in c["where"]]),
        "repo_functions": sorted({c["func"] for c in parsed["checks"] if "repo/src" in c["where"] and c["func"]}),
        "symex_s": round(parsed["symex_s"], 3),
        "solver_s": round(parsed["solver_s"], 3),
        "solver_calls": parsed["solver_calls"],
        "variables": parsed["variables"],
        "clauses": parsed["clauses"],
        "vccs": parsed["vccs"],
        "wall_s": round(wall, 1),
        "rss_mb": rss_mb,
        "stubs": parsed["stubs"],
        "rc": p.returncode,
        "log": log_path,
    }
