//! Environment models shared by the harness crates (included with `#[path]`).
//!
//! 1. `copy_stub` replaces `core::ptr::copy` / `core::ptr::copy_nonoverlapping` (`-Z stubbing`).
//!    Reason (measured, Kani 0.68 / CBMC 6.11): the built-in memmove/memcpy model drops the last element when
//!    the element type is wider than one byte AND the element count is symbolic
//!    (`ptr::copy(p.add(1), p, n)` on `[u16; 6]` with `n` symbolic: `a[n-1]` keeps its old value; the same
//!    call with a concrete `n`, or on `[u8; _]`, is modelled correctly). The stub case-splits on the count so
//!    that every copy has a concrete size; it reads the whole source before writing (memmove semantics), which
//!    is also a correct refinement of copy_nonoverlapping. A count beyond `COPY_STUB_MAX` fails the check
//!    "copy_stub: count beyond the modelled bound", which the driver reports as inconclusive.
//! 2. `hae_stub` replaces `alloc::alloc::handle_alloc_error` ("the allocation-error handler diverges"),
//!    see DESIGN.md 2.7.
#![allow(dead_code)]
use core::ptr;

pub const COPY_STUB_MAX: usize = 16;

macro_rules! arm {
    ($src:ident, $dst:ident, $n:literal) => {{
        let t = ptr::read($src as *const [T; $n]);
        ptr::write($dst as *mut [T; $n], t);
    }};
}

pub unsafe fn copy_stub<T>(src: *const T, dst: *mut T, count: usize) {
    unsafe {
        match count {
            0 => {}
            1 => arm!(src, dst, 1),
            2 => arm!(src, dst, 2),
            3 => arm!(src, dst, 3),
            4 => arm!(src, dst, 4),
            5 => arm!(src, dst, 5),
            6 => arm!(src, dst, 6),
            7 => arm!(src, dst, 7),
            8 => arm!(src, dst, 8),
            9 => arm!(src, dst, 9),
            10 => arm!(src, dst, 10),
            11 => arm!(src, dst, 11),
            12 => arm!(src, dst, 12),
            13 => arm!(src, dst, 13),
            14 => arm!(src, dst, 14),
            15 => arm!(src, dst, 15),
            16 => arm!(src, dst, 16),
            _ => {
                kani::assert(false, "copy_stub: count beyond the modelled bound");
                kani::assume(false);
            }
        }
    }
}

pub fn hae_stub(_layout: core::alloc::Layout) -> ! {
    panic!("handle_alloc_error (stub): allocation failed in a panicking method")
}
