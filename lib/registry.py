"""Harness registry: which Kani harness serves which property, in which tier, under which budget.

Every entry is one solver query family (one `#[kani::proof]` = one monomorphic instantiation).
`mem_gb` / `timeout_s` are >= 1.5x / 2x the measured values; exceeding them is *inconclusive*.
"""

HARNESSES = []


def H(crate, path, props, tier="quick", kind="proof", timeout_s=600, mem_gb=2, stubbing=False, cbmc_args=(), expect_fail=(), bounds="", inst="", unwind=None, note="", tags=()):
    HARNESSES.append(
        dict(
            crate=crate,
            path=path,
            name=path.split("::")[-1],
            props=list(props),
            tier=tier,
            kind=kind,
            timeout_s=timeout_s,
            mem_gb=mem_gb,
            stubbing=stubbing,
            cbmc_args=list(cbmc_args),
            expect_fail=list(expect_fail),
            bounds=bounds,
            inst=inst,
            unwind=unwind,
            note=note,
            tags=list(tags),
        )
    )


# ------------------------------------------------------------------------------------------------
# E-pure: C11 (src/bumping.rs)
# ------------------------------------------------------------------------------------------------
FULL64 = "none: loop-free, all 64-bit start/end/size, align 2^0..2^63, min_align 2^0..2^4"
for d in ("up", "down"):
    for hint in ("fff", "fft", "tff", "tft", "ttf", "ttt"):
        H("kani-pure", "c11::c11_%s_spec_%s" % (d, hint), ["C11"], bounds=FULL64, inst="hints(align_const,size_const,size_mult_align)=%s" % hint, timeout_s=900)
    H("kani-pure", "c11::c11_%s_hint_independent" % d, ["C11"], bounds=FULL64, inst="symbolic truthful hints vs no hints; regular or dummy range", timeout_s=900)
    H("kani-pure", "c11::c11_dummy_%s" % d, ["C11", "C14"], bounds=FULL64, inst="dummy range, symbolic hints")
    H("kani-pure", "c11::c11_dummy_prepare_%s" % d, ["C11", "C14"], bounds=FULL64, inst="dummy range, symbolic hints, array layouts")
    H("kani-pure", "c11::c11_prepare_%s_spec" % d, ["C11"], bounds=FULL64, inst="array layouts, symbolic hints", timeout_s=900)
    H("kani-pure", "c11::c11_canary_%s" % d, ["C11"], kind="canary", expect_fail=["CANARY"], bounds=FULL64, inst="deliberately false claim must be refuted")

# ------------------------------------------------------------------------------------------------
# E-pure: C12 (src/chunk/size_config.rs composed with src/bumping.rs)
# ------------------------------------------------------------------------------------------------
C12B = "none: loop-free; any Layout, base-allocator value layout size 0..256 / align 1..256, any MINIMUM_CHUNK_SIZE, any previous chunk size (multiple of 16), any base address and any over-grant, min_align 1..16, all truthful hints"
for d in ("up", "down"):
    H("kani-pure", "c12::c12_create_fits_%s" % d, ["C12"], bounds=C12B, inst="direction " + d, timeout_s=1800, mem_gb=2)
    H("kani-pure", "c12::c12_create_fits_prepare_%s" % d, ["C12"], bounds=C12B, inst="array layouts, prepare variant, direction " + d, timeout_s=1800, mem_gb=2)
    H("kani-pure", "c12::c12_size_from_hint_%s" % d, ["C12"], bounds=C12B, inst="raw size hint (Bump::with_size / minimum chunk size), direction " + d, timeout_s=900)
H("kani-pure", "c12::c12_canary_create", ["C12"], kind="canary", expect_fail=["CANARY"], bounds=C12B, inst="deliberately false claim must be refuted")

# ------------------------------------------------------------------------------------------------
# E-slice: one operation from an arbitrary state (len <= CAP = 4) over a stack array
# ------------------------------------------------------------------------------------------------
SLB = "len <= 4 (CAP), ids 0..len with symbolic payload bytes; all argument values (usize) unless stated; unwind 10"
SL_STUBS = "stubs: core::ptr::copy / copy_nonoverlapping -> count-case-split copy (CBMC drops the last multi-byte element on symbolic counts)"


def S(mod, name, props, inst, **kw):
    kw.setdefault("timeout_s", 600)
    kw.setdefault("mem_gb", 3)
    H("kani-slice", "%s::%s" % (mod, name), props, stubbing=True, bounds=SLB, inst=inst, unwind=10, note=SL_STUBS, **kw)


S("boxed", "box_pop", ["C06", "C08"], "BumpBox<[E]>::pop")
S("boxed", "box_clear", ["C06", "C08"], "BumpBox<[E]>::clear")
S("boxed", "box_truncate", ["C06", "C08"], "BumpBox<[E]>::truncate(n), any n")
S("boxed", "box_remove", ["C06", "C08"], "BumpBox<[E]>::remove(i), i < len")
S("boxed", "box_swap_remove", ["C06", "C08"], "BumpBox<[E]>::swap_remove(i), i < len")
S("boxed", "box_split_off", ["C16", "C06"], "BumpBox<[E]>::split_off(start..end), every prefix/suffix/empty/full range; then drop either part first")
S("boxed", "box_split_off_interior", ["C16", "C06"], "split_off of every interior non-empty range for len <= 6 (20 concrete shapes, payloads symbolic): both rotate branches with the real std rotate")
S("boxed", "box_split_at_merge", ["C16"], "split_at(at) then merge")
S("boxed", "box_split_first_last", ["C16", "C06"], "split_first / split_last")
S("boxed", "box_split_off_first_last", ["C16", "C06"], "split_off_first / split_off_last")
S("boxed", "box_retain", ["C06", "C08"], "retain under every predicate (mask)")
S("boxed", "box_drain", ["C06", "C08"], "drain(start..end) consumed 0..2 front / 0..1 back then dropped")
S("boxed", "box_drain_keep_rest", ["C06", "C08"], "drain(start..end) consumed 0..2 front / 0..2 back then keep_rest()")
S("boxed", "box_extract_if", ["C06", "C08"], "extract_if under every predicate, consumed 0..4 then dropped")
S("boxed", "box_dedup_by", ["C06", "C08"], "dedup_by under every neighbour relation")
S("boxed", "box_partition", ["C16", "C06"], "partition under every predicate")
S("boxed", "box_map_in_place", ["C16", "C06"], "map_in_place E -> u8")
S("boxed", "box_map_in_place_same", ["C16", "C06"], "map_in_place E -> E")
S("boxed", "box_into_iter", ["C06", "C08"], "into_iter consumed 0..2 from each end then dropped")
S("boxed", "box_into_flattened", ["C16", "C06"], "BumpBox<[[E;2]]>::into_flattened, 0..2 arrays")
S("boxed", "box_single_routes", ["C06"], "BumpBox<E>: drop / into_inner / leak / into_raw+from_raw")
S("boxed", "box_zst_ops", ["C06", "C08", "C16"], "zero-sized elements: pop/truncate/remove/swap_remove/split_off/clear")

S("boxed", "box_zst_iters", ["C06", "C08"], "zero-sized elements: drain(s..e) / drain + keep_rest / into_iter, not advanced, then dropped: total drop count")
S("fixed", "fixed_try_push", ["C08", "C06", "C07"], "FixedBumpVec::try_push on every state (full => Err, value consumed once)")
S("fixed", "fixed_try_insert", ["C08", "C06", "C07"], "FixedBumpVec::try_insert(i, x), i <= len")
S("fixed", "fixed_remove_ops", ["C08", "C06"], "remove / swap_remove / pop / pop_if")
S("fixed", "fixed_truncate_clear", ["C08", "C06"], "truncate(n) / clear")
S("fixed", "fixed_extend_clone", ["C08", "C07"], "try_extend_from_slice_clone / try_extend_from_within_clone / try_resize (0..2 new elements)")
S("fixed", "fixed_append", ["C06", "C08", "C07"], "try_append(BumpBox<[E]>) with 0..2 elements: ownership hand-over, all-or-nothing")
S("fixed", "fixed_split_off", ["C16", "C08"], "FixedBumpVec::split_off prefix/suffix/empty/full: partition, capacities add up, parts independent")
S("fixed", "fixed_split_off_interior", ["C16", "C08"], "FixedBumpVec::split_off of every interior range for len <= 6 (20 concrete shapes)")
S("fixed", "fixed_split_at_spare", ["C16"], "split_at_spare")
S("fixed", "fixed_try_reserve", ["C07", "C08"], "try_reserve(additional), any usize")
S("fixed", "fixed_zst_capacity", ["C08", "C06"], "zero-sized elements: capacity usize::MAX, 0..3 pushes")


def P(name, props, inst, expect):
    H("kani-slice", "panics::%s" % name, props, kind="must_panic", expect_fail=expect, stubbing=True, bounds=SLB, inst=inst, unwind=10, timeout_s=600, mem_gb=3,
      note=SL_STUBS + "; std ptr_rotate stubbed by a failing assertion (never reached on a panicking path)")


P("panic_box_remove_oob", ["C08"], "BumpBox<[E]>::remove(i), every i >= len", [r"remove::assert_failed"])
P("panic_box_swap_remove_oob", ["C08"], "swap_remove(i), every i >= len", [r"swap_remove::assert_failed"])
P("panic_box_split_off_bad_range", ["C08", "C16"], "split_off(s..e), every s > e or e > len", [r"slice_index_order_fail|slice_end_index_len_fail"])
P("panic_box_split_at_oob", ["C08", "C16"], "split_at(at), every at > len", [r"split_at::assert_failed"])
P("panic_box_drain_bad_range", ["C08"], "drain(s..e), every invalid range", [r"slice_index_order_fail|slice_end_index_len_fail"])
P("panic_box_merge_not_adjacent", ["C16"], "merge(right, left) of the two halves of every split", [r"merge::assert_failed"])
P("panic_fixed_push_full", ["C08", "C07"], "FixedBumpVec::push on a full vector", [r"fixed_size_vector_is_full"])
P("panic_fixed_insert_oob", ["C08"], "insert(i, x), every i > len", [r"generic_insert_mut::assert_failed"])
P("panic_fixed_remove_oob", ["C08"], "FixedBumpVec::remove / swap_remove, every i >= len", [r"remove::assert_failed"])
P("panic_fixed_extend_from_within_oob", ["C08"], "extend_from_within_clone(s..e), every invalid range", [r"slice_index_order_fail|slice_end_index_len_fail"])
S("panics", "nopanic_box_in_range", ["C08"], "in-range remove / swap_remove / drain never reach a panic")

# strings (C09)
STB = "every valid UTF-8 text of <= 4 bytes (1-4 byte chars and mixes) in a fixed string of capacity 8; every index/range; any char; inserted &str <= 2 bytes; unwind 10"
for name, inst in [
    ("str_push", "try_push(any char)"), ("str_push_str", "try_push_str(any valid <=2 bytes)"), ("str_insert", "try_insert(idx, any char) at every boundary"),
    ("str_insert_str", "try_insert_str at every boundary"), ("str_remove", "remove(idx) at every boundary < len"), ("str_pop_truncate_clear", "pop / truncate(n) / clear"),
    ("str_retain", "retain under every predicate over char positions"), ("str_drain_split_off", "drain(a..b) and split_off(a..b) at every pair of boundaries (split_off: non-rotating ranges)"),
    ("str_replace_range", "try_replace_range(a..b, any valid <=2 bytes)"), ("str_extend_from_within", "try_extend_from_within(a..b)"),
    ("str_full_refuses", "full fixed string: try_push / try_insert / try_push_str => Err, unchanged"), ("str_from_utf8_arbitrary", "FixedBumpString::from_utf8 on ARBITRARY <=4 bytes vs core::str::from_utf8"),
]:
    props = ["C09"] + (["C16"] if "split_off" in name else [])
    if name == "str_from_utf8_arbitrary":
        H("kani-slice", "strings::" + name, props, stubbing=True, bounds=STB, inst=inst, unwind=10, timeout_s=1200, mem_gb=4, note=SL_STUBS)
        continue
    H("kani-slice", "strings::" + name, props, stubbing=True, bounds=STB, inst=inst + " [validity oracle: scalar validator proven equal to core on <=4 bytes]", unwind=10, timeout_s=1200, mem_gb=4, note=SL_STUBS)
    H("kani-slice", "strings::" + name + "_core", props, tier="thorough", stubbing=True, bounds=STB, inst=inst + " [validity oracle: core::str::from_utf8]", unwind=10, timeout_s=3600, mem_gb=12, note=SL_STUBS)
H("kani-slice", "strings::str_validity_model_equals_core", ["C09"], stubbing=True, bounds="every byte string of length <= 4", inst="scalar UTF-8 validator == core::str::from_utf8(..).is_ok()", unwind=10, timeout_s=1200, mem_gb=4, note=SL_STUBS)
H("kani-slice", "strings::panic_str_bad_index_core", ["C09"], tier="thorough", kind="must_panic", expect_fail=[r"assert_char_boundary|slice_error_fail|str::|remove|slice_index|slice_end|slice_start|panic"], stubbing=True, bounds=STB,
  inst="as panic_str_bad_index with core validity", unwind=10, timeout_s=3600, mem_gb=8, note=SL_STUBS)
H("kani-slice", "strings::str_split_off_interior", ["C09", "C16"], stubbing=True, bounds="every interior non-empty range of every length <= 6 (20 concrete shapes), 6 symbolic ASCII bytes; unwind 10", inst="FixedBumpString::split_off(s..e), real std rotate", unwind=10, timeout_s=2400, mem_gb=12, note=SL_STUBS)
H("kani-slice", "strings::boxstr_split_off_interior", ["C09", "C16"], tier="thorough", stubbing=True, bounds="every interior non-empty range of every length <= 6 (20 concrete shapes), 6 symbolic ASCII bytes; unwind 10", inst="BumpBox<str>::split_off(s..e), real std rotate", unwind=10, timeout_s=2400, mem_gb=12, note=SL_STUBS)
H("kani-slice", "strings::mustfail_str_range", ["C09", "C16"], kind="must_panic", expect_fail=[r"assert_char_boundary|slice_error_fail|slice_index_order_fail|slice_end_index_len_fail|slice_start_index_len_fail"], stubbing=True, bounds=STB,
  inst="FixedBumpString::split_off / BumpBox<str>::split_off / drain with every range that is reversed, out of bounds or has an end inside a multi-byte char (empty ranges included)", unwind=10, timeout_s=1200, mem_gb=4, note=SL_STUBS)
H("kani-slice", "strings::panic_str_bad_index", ["C09"], kind="must_panic", expect_fail=[r"assert_char_boundary|slice_error_fail|str::|remove|slice_index|slice_end|slice_start|panic"], stubbing=True, bounds=STB,
  inst="insert / insert_str / remove / truncate / replace_range with every index that is out of range or not a char boundary", unwind=10, timeout_s=1200, mem_gb=4, note=SL_STUBS)

# ------------------------------------------------------------------------------------------------
# E-arena: the real arena on verification base allocators (48-byte first chunk = 16 B capacity)
# ------------------------------------------------------------------------------------------------
ARB = "history <= 4 ops: new, filler A = L(<=6 B, align<=4), filler B = L(<=8 B, align<=8) [=> every legal bump position of the 16-byte chunk], ONE operation with N = L(<=16 B, align<=16); chunks <= 2; unwind 6"
AR_STUBS = "base allocator = stub VA (concrete-size heap objects 48/112/240 B, concrete just-in-time budget, logged grants); std::alloc::handle_alloc_error stubbed by panic"


# chunk objects of 112/240 bytes must stay field-sensitive (CBMC's default limit is 64 array cells), DESIGN.md 2.5
FS = ["--max-field-sensitivity-array-size", "256"]


def A(mod, name, props, inst, tags=(), **kw):
    kw.setdefault("timeout_s", 1800)
    kw.setdefault("mem_gb", 8)
    kw.setdefault("bounds", ARB)
    kw.setdefault("cbmc_args", FS)
    H("kani-arena", "%s::%s" % (mod, name), props, stubbing=True, inst=inst, unwind=6, note=AR_STUBS, tags=tags, **kw)


OPS_ALL = ["op0", "op1", "op2", "op3", "op4", "op5", "op6", "unfit"]
STEP_PROPS = ["C01", "C02", "C13"]
for name, inst, tags, tier in [
    ("step_up1_bump_b0", "up, MIN_ALIGN 1, &Bump, no new chunk: all 6 ops", OPS_ALL + ["up", "b0"], "quick"),
    ("step_down1_bump_b0", "down, MIN_ALIGN 1, &Bump, no new chunk: all 6 ops", OPS_ALL + ["b0"], "quick"),
    ("step_up8_bump_b0", "up, MIN_ALIGN 8", OPS_ALL + ["up", "b0"], "thorough"),
    ("step_down16_bump_b0", "down, MIN_ALIGN 16 (every block 16-aligned: no unfit shrink)", [t for t in OPS_ALL if t not in ("unfit", "op6")] + ["b0"], "thorough"),
    ("step_up4_scope_b0", "up, MIN_ALIGN 4, through BumpScope (as_scope)", OPS_ALL + ["up", "b0"], "thorough"),
    ("step_up1_nodealloc_b0", "up, WithoutDealloc(&bump)", OPS_ALL + ["up", "b0"], "thorough"),
    ("step_down1_nodealloc_b0", "down, WithoutDealloc(&bump)", OPS_ALL + ["b0"], "thorough"),
    ("step_up1_noshrink_b0", "up, WithoutShrink(&bump)", OPS_ALL + ["up", "b0"], "quick"),
    ("step_down1_noshrink_b0", "down, WithoutShrink(&bump)", OPS_ALL + ["b0"], "thorough"),
    ("step_up1_set_nodealloc_b0", "up, DEALLOCATES = false", OPS_ALL + ["up", "b0"], "thorough"),
    ("step_down1_set_noshrink_b0", "down, SHRINKS = false", OPS_ALL + ["b0"], "thorough"),
    ("step_up1_set_noshrink_b0", "up, SHRINKS = false", OPS_ALL + ["up", "b0"], "thorough"),
    ("step_down4_bump_b0", "down, MIN_ALIGN 4 (split + give back the lower part of a block whose end is not min-aligned)", OPS_ALL + ["b0"], "thorough"),
    ("step_up8_grow_b0", "up, MIN_ALIGN 8: grow / grow_zeroed of the newest block only (in place up to the very end of the chunk, or a failure only when there is no room)", ["op2", "op3", "up", "b0"], "quick"),
    ("step_up4_grow_nodealloc_b0", "up, MIN_ALIGN 4, WithoutDealloc: grow / grow_zeroed only", ["op2", "op3", "up", "b0"], "thorough"),
]:
    A("step", name, STEP_PROPS + ["C07"], inst, tags=tags, tier=tier, mem_gb=7, timeout_s=2400)
SWB = "history <= 4 ops: new, symbolic fillers A and B (every legal position of the 16-byte chunk), ONE operation whose new layout is CONCRETE and cannot fit (chunk switch certain; base allocator grants chunk 2 = 112 B); unwind 6"
for name, inst, tags, tier in [
    ("step_up1_switch_alloc", "up: allocate L(24,8) => chunk 2", ["op0", "b1"], "quick"),
    ("step_up1_switch_zeroed", "up: allocate_zeroed L(24,8) => chunk 2", ["b1"], "thorough"),
    ("step_up1_switch_dealloc_alloc", "up: deallocate(B) + allocate L(24,8) => chunk 2", ["op5", "b1"], "thorough"),
    ("step_up1_switch_split", "up: split B, give back the upper part, allocate L(24,8) => chunk 2", ["op6", "b1"], "thorough"),
    ("step_up1_switch_grow", "up: grow to L(20,4) => chunk 2", ["op2", "b1"], "thorough"),
    ("step_up1_switch_grow_zeroed", "up: grow_zeroed to L(20,4) => chunk 2", ["b1"], "thorough"),
    ("step_up1_switch_shrink_unfit", "up: shrink of an 8-byte block to L(8,16) (unfit alignment)", ["unfit"], "thorough"),
    ("step_down1_switch_alloc", "down: allocate L(24,8) => chunk 2", ["op0", "b1"], "thorough"),
    ("step_down1_switch_zeroed", "down: allocate_zeroed L(24,8) => chunk 2", ["b1"], "thorough"),
    ("step_down1_switch_dealloc_alloc", "down: deallocate(B) + allocate L(24,8) => chunk 2", ["op5", "b1"], "thorough"),
    ("step_down1_switch_grow", "down: grow to L(20,4) => chunk 2", ["op2", "b1"], "thorough"),
    ("step_down8_switch_alloc", "down, MIN_ALIGN 8: allocate L(18,1) => chunk 2", ["op0", "b1"], "thorough"),
    ("step_up4_switch_grow_noshrink", "up, MIN_ALIGN 4, WithoutShrink: grow to L(24,2) => chunk 2", ["op2", "b1"], "thorough"),
]:
    A("step", name, STEP_PROPS + ["C12"], inst, tags=tags, tier=tier, mem_gb=8, timeout_s=2400, bounds=SWB)
for name, inst, tier in [
    ("step_up1_other_b0", "up: shrink / grow / deallocate+allocate of A, the block that is NOT the newest", "quick"),
    ("step_down1_other_b0", "down: operations on the block that is not the newest", "quick"),
    ("step_down4_other_nodealloc_b0", "down, MIN_ALIGN 4, WithoutDealloc: operations on the non-newest block", "thorough"),
    ("step_up1_other_set_noshrink_b0", "up, SHRINKS = false: operations on the non-newest block", "thorough"),
]:
    A("step", name, STEP_PROPS + ["C07"], inst, tags=["op7", "op8", "op9", "b0"] + (["misaligned"] if "down" in name else []), tier=tier, mem_gb=7, timeout_s=2400)

# C14 claim
for name, inst, tags, tier in [
    ("claim_up1_b0", "up, guard allocates inside the first chunk", ["room"], "quick"),
    ("claim_up1_b1", "up, guard's request L(24,8) creates chunk 2", ["b1", "room"], "quick"),
    ("claim_down1_b0", "down", ["room"], "quick"),
    ("claim_down8_b1", "down, MIN_ALIGN 8, chunk 2 created through the guard", ["b1"], "thorough"),
    ("claim_up16_b0", "up, MIN_ALIGN 16", [], "thorough"),
    ("claim_unallocated", "claim on an unallocated arena (GUARANTEED_ALLOCATED = false)", [], "quick"),
]:
    A("claim", name, ["C14"], inst, tags=tags, tier=tier, mem_gb=6, bounds="new, pre-claim block L(<=4,<=4), claim, every kind of request through the handle (any layout <=16 B / any usize), allocation + scope + nested claim through the guard, drop, allocation after; chunks <= 2; unwind 6")
H("kani-arena", "claim::panic_claim_twice", ["C14"], kind="must_panic", expect_fail=[r"already_claimed"], stubbing=True, cbmc_args=FS, inst="second claim() on a claimed handle", unwind=6, timeout_s=900, mem_gb=4, note=AR_STUBS, bounds="1 chunk")
H("kani-arena", "claim::panic_alloc_on_claimed", ["C14", "C07"], kind="must_panic", expect_fail=[r"error_behavior::panic::claimed"], stubbing=True, cbmc_args=FS, inst="panicking alloc / reserve on a claimed handle", unwind=6, timeout_s=900, mem_gb=4, note=AR_STUBS, bounds="1 chunk")

H("kani-arena", "claim::panic_dyn_alloc_on_claimed", ["C14", "C07", "C17"], kind="must_panic", expect_fail=[r"error_behavior::panic::claimed"], stubbing=True, cbmc_args=FS, inst="panicking allocate_layout / allocate_sized / allocate_slice / reserve of `dyn BumpAllocatorCore` on a claimed handle: the claimed panic, never the allocation-error handler", unwind=6, timeout_s=900, mem_gb=4, note=AR_STUBS, bounds="1 chunk")
HARNESSES[-1]["forbid_fail"] = [r"handle_alloc_error"]
A("claim", "nopanic_dyn_try_alloc_on_claimed", ["C14", "C07"], "try_ twins of the same methods through `dyn BumpAllocatorCore` on a claimed handle: Err, no panic", tier="quick", mem_gb=4, timeout_s=900, bounds="1 chunk")

# C03 scopes
SCB = "new, filler L(<=6,<=4) with a content byte, scope with a workload of two allocations (symbolic L(<=16,<=16), L(<=8,<=8); with budget the first is the concrete L(24,8) => chunk 2), leave, replay the same workload; chunks <= 2; unwind 6"
for name, inst, tags, tier in [
    ("scope_scoped_up1_b1", "scoped(), up, workload acquires chunk 2", ["b1"], "quick"),
    ("scope_scoped_down1_b1", "scoped(), down, workload acquires chunk 2", ["b1"], "thorough"),
    ("scope_scoped_fill_up1_b1", "scoped(), up, workload L(24,8) + L(40..56,8) acquires chunk 2 AND fills it (stale position of the retained chunk leaves less room than the replayed request needs)", ["b1"], "quick"),
    ("scope_checkpoint_fill_down1_b1", "checkpoint() + reset_to(), down, workload fills chunk 2", ["b1"], "thorough"),
    ("scope_guard_drop_fill_up4_b1", "scope_guard() + drop, up, MIN_ALIGN 4, workload fills chunk 2", ["b1"], "thorough"),
    ("scope_guard_drop_up1_b1", "scope_guard() + drop", ["b1"], "thorough"),
    ("scope_guard_reset_up1_b0", "scope_guard() + reset() + second scope from the same guard", ["fail"], "quick"),
    ("scope_checkpoint_up1_b1", "checkpoint() + reset_to()", ["b1"], "thorough"),
    ("scope_checkpoint_down4_b1", "checkpoint() + reset_to(), down, MIN_ALIGN 4", ["b1"], "thorough"),
    ("scope_aligned_up1_b1", "scoped_aligned::<8>()", ["b1"], "thorough"),
    ("scope_unallocated_scoped_stateful_up1", "scoped() entered on an UNALLOCATED arena (first chunk created inside), stateful allocator, up: rewinds to the start of the first chunk", [], "quick"),
    ("scope_unallocated_scoped_va_down1", "scoped() entered on an unallocated arena, down", [], "thorough"),
    ("scope_unallocated_guard_va_up1", "scope_guard() + drop on an unallocated arena, up", [], "thorough"),
    ("scope_unallocated_reset_to_start_over_up1", "reset_to_start() after the first chunk was created, over-aligned allocator (64-byte header), up", [], "thorough"),
    ("scope_unallocated_reset_stateful_up4", "reset() after the first chunk was created, stateful allocator, up, MIN_ALIGN 4", [], "thorough"),
    ("scope_aligned_down1_b0", "scoped_aligned::<8>(), down, inside the first chunk", ["fail"], "quick"),
    ("scope_try_with_mut_spill_up1", "try_alloc_try_with_mut returning Err/Ok, Result slot spills into chunk 2", ["b1"], "quick"),
    ("scope_try_with_mut_spill_down1", "same, down", ["b1"], "thorough"),
    ("scope_try_with_spill_up1", "try_alloc_try_with returning Err/Ok, slot spills into chunk 2", ["b1"], "quick"),
    ("scope_try_with_mut_fits_down4", "try_alloc_try_with_mut, slot fits, down, MIN_ALIGN 4", ["fits"], "thorough"),
    ("scope_try_with_fits_up1", "try_alloc_try_with, slot fits", ["fits"], "quick"),
    ("scope_try_with_mut_bigerr_up1", "try_alloc_try_with_mut, error type larger than the value (Ok gives the slack back)", ["fits"], "quick"),
    ("scope_try_with_mut_bigerr_down1", "same, down", ["fits"], "quick"),
    ("scope_try_with_mut_bigerr_spill_up4", "same, MIN_ALIGN 4, slot spills into chunk 2", ["b1"], "thorough"),
    ("scope_try_with_payload_offset_up2", "try_alloc_try_with, MIN_ALIGN 2, Result<[u8;2],u8>: payload size a multiple of MIN_ALIGN, payload offset inside the Result slot not", ["fits"], "quick"),
    ("scope_try_with_mut_payload_offset_down2", "try_alloc_try_with_mut, same, down", ["fits"], "thorough"),
    ("scope_try_with_mut_payload_offset_up8", "try_alloc_try_with_mut, MIN_ALIGN 8, Result<[u32;2],u32> (payload offset 4)", ["fits"], "thorough"),
    ("scope_try_with_payload_offset_down8", "try_alloc_try_with, MIN_ALIGN 8, down, Result<[u32;2],u32>", ["fits"], "thorough"),
]:
    A("scope", name, ["C03"] + (["C18"] if "aligned" in name else []) + (["C15"] if "try_with_mut" in name else []) + (["C10"] if "try_with" in name else []), inst, tags=tags, tier=tier, mem_gb=8, bounds=SCB)

# C05 chunk release (logging stub checks every deallocate)
C5B = "new -> <= 2 symbolic allocations that may create chunks 2 and 3 -> end; symbolic failure mask over the base-allocator calls; chunks <= 3 (down: 2); unwind 7"
for name, inst, tags, tier in [
    ("release_drop_up1_c3", "drop, up, <= 3 chunks", ["c1", "c2", "c3", "several"], "thorough"),
    ("release_reset_up1_c3", "reset() then drop, up, <= 3 chunks", ["c1", "c2", "c3"], "thorough"),
    ("release_reset_to_start_up1_c2", "reset_to_start() then drop", ["c1", "c2", "several"], "quick"),
    ("release_reset_to_start_up1_c3", "reset_to_start() then drop, <= 3 chunks (the current chunk has two successors when the arena is dropped)", ["c1", "c2", "c3", "several"], "thorough"),
    ("release_scope_up1_c2", "scope exit then drop", ["c1", "c2", "several"], "thorough"),
    ("release_raw_up1_c2", "into_raw / from_raw then drop", ["c1", "c2", "several"], "thorough"),
    ("release_drop_down1_c2", "drop, down, <= 2 chunks", ["c2", "several"], "quick"),
    ("release_reset_down1_c2", "reset() then drop, down", ["c2"], "thorough"),
    ("release_drop_up1_extra8_c2", "base allocator hands out 8 bytes more than requested", ["c1", "c2", "several"], "thorough"),
    ("release_reset_down1_extra24_c2", "down, base allocator hands out 24 bytes more", ["c2"], "thorough"),
    ("release_unallocated_unused", "unused unallocated Bump: 0 base-allocator calls", [], "quick"),
    ("release_drop_over_up1_c2", "over-aligned base allocator (header align 32): release layout alignment", ["c2", "several"], "quick"),
    ("release_reset_over_down1_c2", "over-aligned base allocator, down, reset", ["c2"], "thorough"),
    ("release_drop_stateful_down1_c2", "stateful base allocator (48-byte header), down; the stub checks that its handle does not live inside the block it is asked to release", ["c2", "several"], "quick"),
]:
    A("chunks", name, ["C05"], inst, tags=tags, tier=tier, mem_gb=10, timeout_s=2400, bounds=C5B)

# C10 statistics
C10B = "new -> one allocation (symbolic L(<=24,<=16) in the first chunk, or concrete L(24,4) creating chunk 2) -> follow-up in {none, scope, reset_to_start, reset, deallocate} -> claim; 3 header shapes; chunks <= 2; unwind 6"
for name, inst, tags, tier in [
    ("stats_coherent_va_up1_b1", "identities, zero-sized allocator (32-byte header), up, chunk 2 created", ["b1"], "quick"),
    ("stats_coherent_va_down1_b1", "identities, down, chunk 2 created", ["b1"], "quick"),
    ("stats_coherent_va_up8_b0", "identities, MIN_ALIGN 8, first chunk only", ["fits", "b0"], "thorough"),
    ("stats_coherent_va_down16_b0", "identities, down, MIN_ALIGN 16", ["fits", "b0"], "thorough"),
    ("stats_coherent_extra8_up1_b1", "identities, base allocator hands out 8 bytes more", ["b1"], "thorough"),
    ("stats_coherent_stateful_up1_b1", "identities, stateful allocator (48-byte header), up", ["b1"], "quick"),
    ("stats_coherent_stateful_down1_b1", "identities, stateful allocator, down", ["b1"], "thorough"),
    ("stats_coherent_stateful_small_up1_b1", "identities + C12 growth rule, stateful allocator (first chunk without capacity), a 1-byte request creates chunk 2, up", ["b1"], "quick"),
    ("stats_coherent_stateful_small_down1_b1", "same, down", ["b1"], "thorough"),
    ("stats_coherent_over_up1_b0", "identities, over-aligned allocator (64-byte header, align 32), up", ["fits"], "thorough"),
    ("stats_coherent_over_down1_b0", "identities, over-aligned allocator, down", ["fits"], "quick"),
    ("stats_any_va_up1_b0", "any_stats == stats field by field, zero-sized allocator", ["fits", "b0"], "quick"),
    ("stats_any_va_down1_b1", "any_stats == stats, down, two chunks", ["b1"], "thorough"),
    ("stats_any_stateful_up1_b1", "any_stats == stats, stateful allocator (48-byte header), up, two chunks", ["b1"], "quick"),
    ("stats_any_stateful_down1_b1", "any_stats == stats, stateful allocator, down", ["b1"], "quick"),
    ("stats_any_over_up1_b0", "any_stats == stats, over-aligned allocator, up", ["fits"], "quick"),
    ("stats_any_over_down1_b0", "any_stats == stats, over-aligned allocator, down", ["fits"], "thorough"),
    ("stats_followup_va_up1_b0", "identities after scope exit / reset_to_start / reset / deallocate", ["fits", "b0"], "quick"),
    ("stats_followup_va_down4_b0", "same, down, MIN_ALIGN 4", ["fits", "b0"], "thorough"),
    ("stats_followup_va_up1_b1", "same with two chunks (reset keeps one)", ["b1"], "thorough"),
    ("stats_any_followup_va_up1_b1", "type-erased == typed after scope exit / reset_to_start / deallocate with two chunks (the newer chunk keeps a stale position)", ["b1", "stale"], "thorough"),
    ("stats_any_followup_stateful_down1_b1", "same, stateful allocator, down", ["b1", "stale"], "thorough"),
    ("stats_any_followup_va_down4_b0", "same on one chunk, down, MIN_ALIGN 4", ["fits", "b0"], "thorough"),
    ("stats_claimed_va_up1_b0", "claimed arena reports zeros (typed and type-erased); the guard is coherent", ["fits", "b0"], "quick"),
    ("stats_claimed_stateful_down1_b1", "same, stateful allocator, down", ["b1"], "thorough"),
    ("stats_unallocated_zero", "unallocated arena reports zeros", [], "quick"),
]:
    A("stats", name, ["C10"], inst, tags=tags, tier=tier, mem_gb=10, timeout_s=2400, bounds=C10B)
for name, inst, tier in [
    ("stats_growth_stateful_up1", "stateful allocator (48-byte header): try_with_size(112) => 112-byte first chunk (capacity 64), filled, an 8-byte request creates the next chunk: strictly larger, >= 2 * previous - 16", "quick"),
    ("stats_growth_stateful_down1", "same, down", "thorough"),
    ("stats_growth_over_up1", "over-aligned allocator (64-byte header): 112-byte first chunk (capacity 48)", "thorough"),
]:
    A("stats", name, ["C10", "C12"], inst, tier=tier, mem_gb=8, timeout_s=1800, bounds="try_with_size(112), one concrete fill, one concrete 8-byte request that needs a new chunk; chunks = 2; unwind 6")

# ZST vectors: capacity-overflow clause of C07 (and the ZST capacity clause of C08); no allocation, no loops
for name, inst in [
    ("zst_bumpvec_reserve_family", "BumpVec<()>: try_reserve / try_reserve_exact / try_extend_from_slice_copy / try_extend_from_within_copy / try_push"),
    ("zst_mutbumpvec_reserve_family", "MutBumpVec<()>: same"),
]:
    A("zst", name, ["C07", "C08"], inst, tier="quick", mem_gb=2, timeout_s=600, bounds="ZST element type; every len and every additional in usize (set_len on a ZST vector); one operation")

# C02 zero clause over the whole returned block
for name, inst, tags, tier in [
    ("zero_whole_block_down1", "down, MIN_ALIGN 1", ["down"], "quick"),
    ("zero_whole_block_down8", "down, MIN_ALIGN 8", ["down"], "thorough"),
    ("zero_whole_block_up1", "up", ["up"], "thorough"),
]:
    A("zero", name, ["C02"], inst, tags=tags, tier=tier, mem_gb=6, bounds="new, filler L(<=3,1), B = L(<=8,<=8) with one non-zero byte at a symbolic offset, ONE of allocate_zeroed(L(<=16,<=8)) / grow_zeroed(B -> L(<=16,<=8)); every byte of the RETURNED slice beyond the old contents read at a symbolic index; 1 chunk; unwind 6")

# C10 with a stale non-current chunk, one follow-up per harness (light)
for name, inst, tier in [
    ("stats_stale_chunk_reset_to_start_va_up1", "chunk 2 created and used, reset_to_start(): any_stats == stats, allocated + remaining == capacity", "quick"),
    ("stats_stale_chunk_reset_to_va_down1", "same, reset_to(checkpoint in chunk 1), down", "thorough"),
    ("stats_stale_chunk_reset_to_start_stateful_up1", "same, stateful allocator (48-byte header)", "thorough"),
]:
    A("stats2", name, ["C10"], inst, tier=tier, mem_gb=8, timeout_s=2400, bounds="new, checkpoint, L(24,4) => chunk 2, ONE rewind; chunks = 2; unwind 6")

# BumpVec::splice with an exact fit (parked: does not finish, see EXPERIMENTAL)
for name in ["splice_exact_fit_up1", "splice_exact_fit_down1"]:
    A("splice", name, ["C08"], "BumpVec<u8> capacity 4, 2 elements, splice(0..1, 3 elements): no reallocation", tier="thorough", mem_gb=16, timeout_s=2400, bounds="concrete shape, symbolic values")

# C18 alignment
C18B = "new (outer MIN_ALIGN M), filler L(<=5,<=4), aligned::<N> with two allocations L(<=8,<=8) (with budget the first is the concrete L(20,4) => chunk switch while N is in force), allocation after; unwind 6"
for name, inst, tags, tier in [
    ("aligned_1_to_8_up_b0", "raise 1 -> 8, up", ["room"], "quick"),
    ("aligned_1_to_16_down_b0", "raise 1 -> 16, down", [], "quick"),
    ("aligned_16_to_1_up_b0", "lower 16 -> 1, up", [], "quick"),
    ("aligned_1_to_8_down_b0", "raise 1 -> 8, down (deallocation of the newest block inside the region reachable)", ["room"], "quick"),
    ("aligned_2_to_4_down_b0", "raise 2 -> 4, down", ["room"], "thorough"),
    ("aligned_8_to_2_down_b0", "lower 8 -> 2, down", [], "thorough"),
    ("aligned_4_to_1_up_b1", "lower 4 -> 1, up, chunk switch while lowered", ["b1", "room"], "quick"),
    ("aligned_16_to_2_down_b1", "lower 16 -> 2, down, chunk switch while lowered", ["b1", "room"], "thorough"),
    ("aligned_1_to_4_up_b1", "raise 1 -> 4, up, chunk switch while raised", ["b1", "room"], "thorough"),
    ("settings_raise_alignment", "with_settings / borrow_mut_with_settings raising MIN_ALIGN", [], "quick"),
    ("nopanic_with_settings_ok", "conversions on an allocated, unclaimed arena never panic", [], "quick"),
]:
    A("align", name, ["C18"], inst, tags=tags, tier=tier, mem_gb=6, bounds=C18B)
for name, inst, tags, tier in [
    ("raise_then_older_op_up", "up: A = L(<=4,<=8), B = L(<=3,1) packed under MIN_ALIGN 1, raise to 8 via borrow_mut_with_settings or aligned::<8>, ONE of deallocate+allocate / grow / grow_zeroed / shrink on the OLDER block A", ["up"], "quick"),
    ("raise_then_older_op_down", "same, down", [], "thorough"),
]:
    A("align", name, ["C18", "C01", "C02", "C13"], inst, tags=tags, tier=tier, mem_gb=6, bounds="new (MIN_ALIGN 1), two packed blocks with one symbolic byte each, raise the minimum alignment to 8, ONE operation on the older block with N = L(<=8,<=8); 1 chunk; unwind 6")
H("kani-arena", "align::panic_with_settings_unallocated", ["C18"], kind="must_panic", expect_fail=[r"error_behavior::panic::unallocated"], stubbing=True, inst="with_settings to GUARANTEED_ALLOCATED on an unallocated arena", unwind=6, timeout_s=900, mem_gb=4, note=AR_STUBS, bounds="-")
H("kani-arena", "align::panic_with_settings_claimed", ["C18"], kind="must_panic", expect_fail=[r"error_behavior::panic::claimed"], stubbing=True, inst="with_settings to non-claimable on a claimed arena", unwind=6, timeout_s=900, mem_gb=4, note=AR_STUBS, bounds="-")

# C17 entry points (two arenas in lock-step)
C17B = "two arenas, same settings and stub, the same symbolic filler L(<=9,<=8), ONE request through two entry points; unwind 6"
for name, inst, tier, tags in [
    ("entry_sized_u8_up1", "try_alloc_uninit::<u8> / try_allocate_sized vs allocate(Layout) / try_allocate_layout", "quick", ["fit"]),
    ("entry_sized_u32_up1", "u32", "quick", ["fit"]),
    ("entry_sized_u8x3_down1", "[u8;3], down", "quick", ["fit"]),
    ("entry_sized_u64_down4", "u64, down, MIN_ALIGN 4", "thorough", ["fit"]),
    ("entry_sized_u64x2_up8", "[u64;2], MIN_ALIGN 8", "thorough", ["fit", "nofit"]),
    ("entry_sized_u64x3_up1", "[u64;3] (does not fit: both fail)", "quick", ["nofit"]),
    ("entry_slice_u8_up1", "try_alloc_uninit_slice::<u8>(n) vs allocate(Layout::array), any n", "quick", []),
    ("entry_slice_u32_down1", "u32 slice, down, any n (overflow included)", "quick", []),
    ("entry_slice_u16_up4", "u16 slice, MIN_ALIGN 4", "thorough", []),
    ("entry_handles_up1", "Bump vs BumpScope vs &mut vs &dyn BumpAllocatorCore (allocate, try_allocate_layout) vs &mut dyn MutBumpAllocatorCore vs inside scoped()", "quick", []),
    ("entry_handles_down8", "handles, down, MIN_ALIGN 8", "thorough", []),
    ("entry_twin_up1", "alloc(v) vs try_alloc(v)", "quick", []),
    ("entry_twin_down1", "alloc(v) vs try_alloc(v), down", "thorough", []),
    ("entry_twin_with_closure_up1", "alloc_with(f) vs try_alloc_with(f) where f allocates on the same arena", "quick", []),
    ("entry_twin_with_closure_down1", "same, down", "thorough", []),
    ("entry_reserve_typed_vs_dyn_up1", "try_reserve(20) through Bump vs through &dyn BumpAllocatorCore, then one allocation", "quick", []),
    ("entry_reserve_typed_vs_dyn_down1", "same, down", "thorough", []),
    ("entry_vec_typed_vs_dyn_up1", "BumpVec over &Bump vs over &dyn BumpAllocatorCoreScope: shrink_to_fit / into_boxed_slice", "thorough", []),
    ("entry_vec_typed_vs_dyn_nodealloc_up1", "same, DEALLOCATES = false, SHRINKS = true", "thorough", []),
    ("entry_vec_typed_vs_dyn_nodealloc_down4", "same, down, MIN_ALIGN 4, DEALLOCATES = false", "thorough", []),
    ("entry_vec_typed_vs_dyn_noshrink_down1", "same, down, SHRINKS = false", "thorough", []),
]:
    A("entry", name, ["C17"], inst, tier=tier, tags=tags, mem_gb=6, bounds=C17B, timeout_s=3600 if "vec_typed" in name else 1800)

# C07 failures
for name, inst, tier in [
    ("fail_constructors", "try_new / try_with_size(any) / try_with_capacity(any layout) / try_new_in under refusal", "quick"),
    ("fail_overflow", "overflowing sizes (any usize beyond the limit): slice, reserve, BumpVec capacity, BumpVec::try_reserve", "quick"),
    ("fail_switch_up1", "request that needs chunk 2 under refusal: allocate / allocate_zeroed / grow / try_reserve", "quick"),
    ("fail_switch_down4", "same, down, MIN_ALIGN 4", "thorough"),
    ("fail_unallocated", "first allocation of an unallocated arena under refusal, then recovery", "quick"),
    ("fail_huge_grow_down1", "grow / grow_zeroed of the newest block to ANY size in [2^32, isize::MAX] (valid Layout, no chunk can hold it), down", "quick"),
    ("fail_huge_grow_up1", "same, up", "thorough"),
    ("fail_vec_up", "BumpVec growth under refusal: try_reserve / try_extend_from_slice_copy / try_resize / try_push", "thorough"),
    ("fail_vec_down", "same, down", "thorough"),
]:
    A("fail", name, ["C07"], inst, tier=tier, mem_gb=6, bounds="<= 3 base-allocator calls, concrete refusal schedule (budget 0 at the failing call); sizes symbolic; unwind 6")
F2B = "new, scoped { L(24,1) => chunk 2 (112 B) retained behind chunk 1 }, filler / 2 pushes, ONE request of 200 B that fits in no chunk under refusal (budget 0), follow-up; chunks = 2; unwind 6"
for name, props, inst, tier in [
    ("fail_retained_alloc_up1", ["C07"], "allocate that walks over a retained chunk and is then refused: arena exactly where it was", "quick"),
    ("fail_retained_grow_up1", ["C07"], "grow of the newest block, same", "thorough"),
    ("fail_retained_alloc_down4", ["C07"], "allocate, down, MIN_ALIGN 4", "thorough"),
    ("fail_retained_mutvec_up1", ["C07", "C15"], "MutBumpVec: failed try_reserve keeps length/contents/buffer; into_boxed_slice afterwards leaves a coherent arena", "thorough"),
    ("fail_retained_mutvecrev_down1", ["C07", "C15"], "MutBumpVecRev, down: same", "thorough"),
]:
    A("fail2", name, props, inst, tier=tier, mem_gb=12, timeout_s=2400, bounds=F2B)
H("kani-arena", "fail::panic_alloc_refused", ["C07"], kind="must_panic", expect_fail=[r"handle_alloc_error"], stubbing=True, inst="alloc / reserve / alloc_uninit_slice under refusal end in handle_alloc_error", unwind=6, timeout_s=900, mem_gb=4, note=AR_STUBS, bounds="1 chunk")
H("kani-arena", "fail::panic_capacity_overflow", ["C07"], kind="must_panic", expect_fail=[r"capacity_overflow"], stubbing=True, inst="alloc_uninit_slice::<u64>(n), any overflowing n", unwind=6, timeout_s=900, mem_gb=4, note=AR_STUBS, bounds="1 chunk")

# C12 cross-check of the placement model on the real arena
C12X = "layout L(<=40 B, <=32), 3 header shapes, both directions, 4 creation paths; chunk sizes 48/112/240 (VAOver: 112/128/240/256); unwind 6"
for name, inst, tier in [
    ("c12x_with_capacity_va_up", "try_with_capacity_in, zero-sized allocator, up", "quick"),
    ("c12x_with_capacity_va_down", "try_with_capacity_in, down", "quick"),
    ("c12x_with_capacity_stateful_up", "try_with_capacity_in, stateful allocator", "thorough"),
    ("c12x_with_capacity_over_down", "try_with_capacity_in, over-aligned allocator, down", "quick"),
    ("c12x_with_capacity_over_up", "try_with_capacity_in, over-aligned allocator, up", "thorough"),
    ("c12x_reserve_va_up", "try_reserve(n) then allocate", "quick"),
    ("c12x_reserve_va_down", "try_reserve(n) then allocate, down", "thorough"),
    ("c12x_slow_va_up", "slow path of allocate on a chunk that is too full", "quick"),
    ("c12x_slow_va_down", "slow path, down", "quick"),
    ("c12x_slow_va_extra24_up", "slow path, base allocator hands out 24 bytes more", "thorough"),
    ("c12x_slow_stateful_down", "slow path, stateful allocator, down", "thorough"),
    ("c12x_first_va_up", "first allocation of an unallocated arena", "quick"),
    ("c12x_first_va_down", "first allocation, down", "thorough"),
    ("c12x_first_stateful_up", "first allocation, stateful allocator", "thorough"),
    ("c12x_first_off48_up", "first allocation of an unallocated arena, layout L(<=64 B, <=64), base allocator whose blocks start at 48 mod 64 (chunk start only 16-aligned: over-aligned requests need padding in the fresh chunk), up", "quick"),
    ("c12x_first_off16_down", "same, blocks start at 16 mod 64, down", "thorough"),
    ("c12x_slow_off48_up", "slow path on a chunk that is too full, blocks start at 48 mod 64, up", "thorough"),
]:
    A("c12x", name, ["C12"] + (["C01"] if "_off" in name else []), inst, tags=(["reserve"] if "reserve" in name else []) + (["pad"] if "first_off" in name else []), tier=tier, mem_gb=12, bounds=C12X)

# C15 exclusive-borrow collections (+ their C08 capacity clauses)
C15B = "concrete shape per harness (filler bytes, reserved capacity, <= 3 pushes, which push is granted a new chunk), symbolic element values; 16-byte first chunk; unwind 8"
for name, inst, tags, tier in [
    ("mutvec_u8_up1_stay_final", "MutBumpVec<u8>, up, stays in chunk 1, into_boxed_slice", ["stay"], "quick"),
    ("mutvec_u8_down1_stay_final", "MutBumpVec<u8>, down", ["stay"], "quick"),
    ("mutvec_u16_up4_stay_final", "MutBumpVec<u16>, MIN_ALIGN 4", ["stay"], "thorough"),
    ("mutvec_u32_down1_stay_drop", "MutBumpVec<u32>, down, dropped", ["stay"], "thorough"),
    ("mutvec_u8_up1_stay_drop", "MutBumpVec<u8>, dropped", ["stay"], "quick"),
    ("mutvec_u16_up1_switch_final", "creation does not fit: vector starts in chunk 2", ["switch"], "quick"),
    ("mutvec_u16_down1_switch_drop", "creation in chunk 2, down, dropped", ["switch"], "thorough"),
    ("mutvec_u16_up1_grow_final", "3rd push re-prepares in chunk 2 and copies", ["switch"], "thorough"),
    ("mutvec_u16_down1_grow_final", "growth by copy, down", ["switch"], "thorough"),
    ("mutvec_u8_up1_grow_drop", "growth by copy then dropped", ["switch"], "thorough"),
    ("mutvecrev_u8_up1_stay_final", "MutBumpVecRev<u8>, up", ["stay"], "quick"),
    ("mutvecrev_u16_down1_stay_final", "MutBumpVecRev<u16>, down", ["stay"], "quick"),
    ("mutvecrev_u16_up1_grow_final", "MutBumpVecRev growth by copy", ["switch"], "thorough"),
    ("mutvecrev_u8_down4_grow_drop", "MutBumpVecRev growth by copy, down, MIN_ALIGN 4, dropped", ["switch"], "thorough"),
    ("mutvecrev_u32_up1_switch_final", "MutBumpVecRev<u32> created in chunk 2", ["switch"], "thorough"),
]:
    A("mutvec", name, ["C15", "C08"], inst, tags=tags, tier=tier, mem_gb=(30 if name == "mutvec_u16_up1_grow_final" else 8), timeout_s=(3600 if name == "mutvec_u16_up1_grow_final" else 1800), bounds=C15B)

# arena-backed BumpVec (C06 / C08 / C16 halves)
for name, props, inst, tags, tier in [
    ("vec_push_grow_up1_newest", ["C08"], "BumpVec<u8> push beyond capacity, buffer is the newest block (in place upwards)", ["inplace"], "quick"),
    ("vec_push_grow_down1_newest", ["C08"], "same, down (moves inside the chunk)", ["moved"], "quick"),
    ("vec_push_grow_up1_blocked", ["C08"], "another block behind the buffer: must move", ["moved", "fail"], "thorough"),
    ("vec_push_grow_up1_newchunk", ["C08"], "growth into chunk 2", ["moved"], "thorough"),
    ("vec_push_grow_down4_newchunk", ["C08"], "growth into chunk 2, down, MIN_ALIGN 4", ["moved"], "thorough"),
    ("vec_push_grow_drops_up1", ["C06", "C08"], "BumpVec<D>: elements moved not dropped; dropped exactly once with the vector", [], "thorough"),
    ("vec_push_grow_drops_down1_blocked", ["C06", "C08"], "BumpVec<D>, down, must move", [], "thorough"),
    ("vec_push_grow_drops_up1_newchunk", ["C06", "C08"], "BumpVec<D>, growth into chunk 2", [], "thorough"),
    ("vec_split_independent_up1", ["C16"], "BumpVec<u8>::split_off(..at / at..) then push / shrink_to_fit / drop / into_boxed_slice on one part", [], "thorough"),
    ("vec_split_independent_down1", ["C16"], "same, down", [], "thorough"),
    ("vec_split_independent_up1_b1", ["C16"], "same, growth may create chunk 2", [], "thorough"),
    ("vec_reserve_any", ["C08", "C07"], "try_reserve / try_reserve_exact with ANY additional (full width)", [], "thorough"),
    ("vec_shrink_min_align_down8", ["C10", "C08", "C01"], "BumpVec<u8> shrink_to_fit / shrink_to / into_boxed_slice, down, MIN_ALIGN 8 > align_of::<u8>()", [], "quick"),
    ("vec_shrink_min_align_up4", ["C10", "C08", "C01"], "same, up, MIN_ALIGN 4", [], "quick"),
    ("vec_shrink_min_align_down1", ["C10", "C08"], "same, down, MIN_ALIGN 1", [], "thorough"),
]:
    A("vecs", name, props, inst, tags=tags, tier=tier, mem_gb=8, bounds="BumpVec with <= 4 elements in the 16-byte chunk, concrete shape, symbolic values / split point / follow-up; unwind 8")

# C07 third round: formatted try_ allocations under refusal
for name, inst, tier in [
    ("fail_fmt_up1", "try_alloc_fmt(format_args!(\"{}\", 20-byte &str)) after a symbolic filler, base allocator refuses, up", "quick"),
    ("fail_fmt_down1", "same, down", "thorough"),
    ("fail_fmt_mut_up1", "try_alloc_fmt_mut, up", "thorough"),
    ("fail_cstr_fmt_down1", "try_alloc_cstr_fmt, down", "thorough"),
]:
    A("failfmt", name, ["C07"], inst, tier=tier, mem_gb=8, timeout_s=1500, bounds="filler L(<=6,<=4), ONE formatted request of 20 bytes (cannot fit the 16-byte chunk) with budget 0; a single {} of a &str; unwind 6")

# C15 third round: trait-object allocator on an unallocated arena; in-place map then finalise
for name, inst, tier in [
    ("mutvec_dyn_unallocated_up1", "MutBumpVec<[u8;3], &mut dyn MutBumpAllocatorCoreScope> on an UNALLOCATED arena (the vector creates the first chunk), 2 pushes, into_slice, up", "quick"),
    ("mutvec_dyn_unallocated_down1", "same, down", "quick"),
    ("mutvecrev_dyn_unallocated_up1", "MutBumpVecRev, same, up", "thorough"),
    ("mutvecrev_dyn_unallocated_down1", "MutBumpVecRev, same, down", "thorough"),
    ("mutvecrev_dyn_bump_unallocated_up1", "MutBumpVecRev over `&mut dyn MutBumpAllocatorCoreScope` whose concrete type is `&mut Bump` (not BumpScope), unallocated arena, up", "thorough"),
    ("mutvecrev_dyn_bump_unallocated_down1", "same, down", "thorough"),
    ("mutvec_dyn_bump_unallocated_down1", "MutBumpVec, concrete type `&mut Bump`, down", "thorough"),
    ("mutvec_map_in_place_up1", "MutBumpVec<[u8;3]> (2 elements) after a symbolic filler <= 5 B, map_in_place -> [u8;2], into_slice, up", "thorough"),
    ("mutvec_map_in_place_down1", "same, down (KNOWN FINDING: up to size_of::<U>() - 1 bytes wasted)", "quick"),
]:
    A("mutvec2", name, ["C15"], inst, tier=tier, mem_gb=8, timeout_s=1800, bounds="concrete shape (capacity 2, 2 pushes), symbolic values and filler; element [u8;3] (size does not divide the free range); unwind 5")
    HARNESSES[-1]["unwind"] = 5

# BumpVec on the real arena, ONE operation from an arbitrary state (bvec.rs; loop-free bodies, unwind 3)
BVB = "BumpVec<u8 | D(1 byte)> with CONCRETE capacity (2..8) in the 16-byte chunk, SYMBOLIC length <= capacity and symbolic element values, buffer newest or followed by another block (concrete per harness); ONE operation with symbolic arguments; budget 0 (growth in place / by moving inside the chunk / clean failure); unwind 3 (shrink: 5 for the statistics walk; into_iter, splice: 6)"
for name, props, inst, tags, tier in [
    ("bvec_push_up1_newest", ["C08", "C07"], "try_push, up, buffer newest (grows in place)", ["inplace"], "quick"),
    ("bvec_push_up1_blocked", ["C08", "C07", "C02"], "try_push, up, another block behind the buffer (moves)", ["moved"], "thorough"),
    ("bvec_push_down1_newest", ["C08", "C07", "C02"], "try_push, down (moves inside the chunk)", ["moved"], "quick"),
    ("bvec_push_up1_full", ["C07", "C08"], "try_push, chunk full behind the buffer: growth fails cleanly", ["fail"], "quick"),
    ("bvec_insert_up1_newest", ["C08", "C07"], "try_insert(i <= len, x), up, newest", [], "quick"),
    ("bvec_insert_down1_blocked", ["C08", "C07"], "try_insert, down, blocked", [], "thorough"),
    ("bvec_reserve_up1_newest", ["C08", "C07", "C13"], "try_reserve / try_reserve_exact(additional <= 12, or one of usize::MAX / isize::MAX / isize::MAX - 1), up, newest", [], "quick"),
    ("bvec_reserve_down1_newest", ["C08", "C07", "C13"], "same, down", [], "thorough"),
    ("bvec_reserve_up4_blocked", ["C08", "C07", "C13"], "same, up, MIN_ALIGN 4, blocked", ["fail"], "thorough"),
    ("bvec_extend_up1_newest", ["C08", "C07"], "try_extend_from_slice_copy(<= 3 elements), up, newest", [], "quick"),
    ("bvec_resize_up1_newest", ["C08", "C07"], "try_resize(new_len <= 6, x), up, newest", ["resize"], "thorough"),
    ("bvec_append_up1_newest", ["C08", "C07"], "try_append([a, b]), up, newest", [], "thorough"),
    ("bvec_extend_down1_blocked", ["C08", "C07"], "try_extend_from_slice_copy, down, blocked", ["fail"], "thorough"),
    ("bvec_resize_down1_blocked", ["C08", "C07"], "try_resize, down, blocked", ["fail", "resize"], "thorough"),
    ("bvec_shrink_up1_newest", ["C08", "C10", "C13", "C01", "C02"], "shrink_to_fit / shrink_to(any m) / into_boxed_slice / into_fixed_vec, up, newest", ["reclaim"], "quick"),
    ("bvec_shrink_down8_newest", ["C08", "C10", "C13", "C01", "C02"], "same, down, MIN_ALIGN 8 > align_of::<u8>(), capacity 7 (nothing can be reclaimed: the position stays 8-aligned)", [], "quick"),
    ("bvec_shrink_up4_newest", ["C08", "C10", "C13", "C01", "C02"], "same, up, MIN_ALIGN 4, capacity 7", ["reclaim"], "thorough"),
    ("bvec_shrink_down1_blocked", ["C08", "C10", "C13"], "same, down, not the newest allocation: nothing reclaimed", [], "thorough"),
    ("bvec_shrink_up1_set_noshrink", ["C13", "C08"], "same, SHRINKS = false: allocated() never decreases", [], "thorough"),
    ("bvec_split_push_up1", ["C16", "C08", "C01"], "split_off(..at | at..) then try_push on the split-off part (grows / moves), up", [], "thorough"),
    ("bvec_split_shrink_up1", ["C16", "C08"], "split_off then shrink_to_fit of the split-off part, up", [], "thorough"),
    ("bvec_split_drop_up1", ["C16", "C08", "C13"], "split_off then drop of the split-off part (deallocate), up", [], "quick"),
    ("bvec_split_box_down1", ["C16", "C08"], "split_off then into_boxed_slice of the split-off part, down", [], "thorough"),
    ("bvec_split_push_down1", ["C16", "C08", "C01"], "split_off then try_push on the split-off part, down", [], "thorough"),
    ("bvec_split_drop_up8", ["C16", "C01", "C02", "C13"], "split_off then drop, up, MIN_ALIGN 8, capacity 8 (a part may end inside the min-align padding)", [], "thorough"),
    ("bvec_split_push_up8", ["C16", "C01", "C02"], "split_off then try_push, up, MIN_ALIGN 8, capacity 8", [], "thorough"),
    ("bvec_push_drops_up1_newest", ["C06", "C08", "C13"], "BumpVec<D> (capacity 2): push / insert across growth moves (never drops); failed push consumes the value once; drop of the vector drops each once and gives the buffer back", [], "quick"),
    ("bvec_push_drops_down1_blocked", ["C06", "C08"], "same, down, blocked", [], "thorough"),
    ("bvec_push_drops_up1_full", ["C06", "C07"], "same, growth fails", ["fail"], "thorough"),
    ("bvec_into_iter_up1", ["C06", "C08"], "BumpVec<D>::into_iter consumed 0..1 front / 0..1 back then dropped", [], "quick"),
    ("bvec_splice_exact_fit_up1", ["C08"], "BumpVec<u8> capacity 4, 2 elements, splice(0..1, 3 elements): exact fit, no reallocation", [], "thorough"),
    ("bvec_splice_exact_fit_down1", ["C08"], "same, down", [], "thorough"),
]:
    A("bvec", name, props, inst, tags=tags, tier=tier, mem_gb=(13 if "split" in name else 10), timeout_s=(2400 if "split" in name else 1800), bounds=BVB)
    HARNESSES[-1]["unwind"] = 6 if ("into_iter" in name or "splice" in name) else (8 if "resize" in name else (5 if ("shrink" in name or "drops" in name) else 3))

# slice-level typed entry points (C10 position clause, C13 opt-out, C17 typed vs dyn, C01/C02 for shrink_slice)
for name, props, inst, tags, tier in [
    ("slice_shrink_down8", ["C10", "C01", "C02"], "try_allocate_slice::<u8>(7) + shrink_slice(7 -> any n), down, MIN_ALIGN 8", ["some"], "quick"),
    ("slice_shrink_up4", ["C10", "C01", "C02"], "same (8 bytes), up, MIN_ALIGN 4", ["some"], "quick"),
    ("slice_shrink_down1", ["C10", "C01", "C02"], "same, down, MIN_ALIGN 1", ["moves", "some"], "thorough"),
    ("slice_shrink_down4_set_noshrink", ["C13", "C10"], "same, down, MIN_ALIGN 4, SHRINKS = false", [], "quick"),
    ("slice_shrink_typed_vs_dyn_up1", ["C17"], "shrink_slice through &Bump vs &dyn BumpAllocatorCore, lock-step", ["some"], "thorough"),
    ("slice_shrink_typed_vs_dyn_nodealloc_up1", ["C17", "C13"], "same, DEALLOCATES = false, SHRINKS = true", ["some"], "quick"),
    ("slice_shrink_typed_vs_dyn_nodealloc_down4", ["C17", "C13"], "same, down, MIN_ALIGN 4", ["some"], "quick"),
]:
    A("slices", name, props, inst, tags=tags, tier=tier, mem_gb=6, bounds="new, filler L(<=4,<=4), a 7-byte slice, shrink_slice to ANY new length <= 7, one allocation after; unwind 6")

for name, inst, tier in [
    ("typed_dealloc_wrappers_up1", "BumpAllocatorTyped::dealloc(BumpBox<[u8;4]>) of the newest block through &Bump / WithoutShrink (reclaims, address reused) and through WithoutDealloc by value, by reference and nested with WithoutShrink either way (allocated() and position unchanged), up", "quick"),
    ("typed_dealloc_wrappers_down4", "same, down, MIN_ALIGN 4", "thorough"),
]:
    A("slices", name, ["C13", "C17"], inst, tier=tier, mem_gb=6, bounds="new, filler L(<=4,<=4), one [u8;4] block, ONE typed deallocation through a symbolic choice of 7 entry points, one allocation after; unwind 6")

for name, inst, tier in [
    ("split_parts_up8_len8", "up, MIN_ALIGN 8, an 8-byte block split at every interior point (a part ends inside the other part's min-align padding)", "quick"),
    ("split_parts_up8_len16", "up, MIN_ALIGN 8, a 16-byte block (two granules; the tail may lie inside the last granule)", "thorough"),
    ("split_parts_down4_len8", "down, MIN_ALIGN 4, 8-byte block", "thorough"),
    ("split_parts_up1_len8", "up, MIN_ALIGN 1, 8-byte block", "thorough"),
]:
    A("slices", name, ["C01", "C16", "C02", "C13"], inst, tier=tier, mem_gb=8, timeout_s=2400, bounds="new, ONE block of LEN bytes split at a symbolic interior point, ONE operation (deallocate + allocate / grow / shrink / typed shrink_slice + allocate, N = L(<=8,<=8)) on a symbolic choice of the part; 1 chunk; unwind 6")

for name, inst, tier in [
    ("cstr_into_mut_up1", "MutBumpString (capacity 5) holding ANY text of <= 4 ASCII bytes (NULs anywhere), try_into_cstr, up", "quick"),
    ("cstr_into_mut_down1", "same, down", "thorough"),
    ("cstr_from_str_up1", "try_alloc_cstr_from_str(ANY text of <= 4 ASCII bytes), up", "thorough"),
    ("cstr_from_str_down1", "same, down", "thorough"),
]:
    A("cstr", name, ["C09"], inst, tier=tier, mem_gb=8, timeout_s=1800, bounds="text <= 4 ASCII bytes incl. NUL at any position; no growth (capacity reserved); 1 chunk; unwind 7")
    HARNESSES[-1]["unwind"] = 7

# C19 pool (sequentialised): one concrete schedule of two logical threads per harness
for name, inst, tier in [
    ("pool_handoff_get", "hand-off: T0.get, allocate+write, T0.drop, T1.get via try_get, allocate; arena re-issued, data intact", "quick"),
    ("pool_handoff_with_capacity", "hand-off, second acquisition via try_get_with_capacity(32 B) (does not fit the idle arena's remaining space)", "quick"),
    ("pool_overlap_get", "overlap: T0.get, T1.get (two live guards => two arenas), both allocate", "quick"),
    ("pool_overlap_with_capacity", "overlap, second acquisition via try_get_with_capacity", "thorough"),
    ("pool_handoff_then_drop", "hand-off, guards dropped, pool dropped: every chunk returned exactly once", "quick"),
    ("pool_overlap_then_drop", "overlap, guards dropped, pool dropped", "quick"),
    ("pool_overlap_then_reset", "overlap, guards dropped, pool.reset()", "thorough"),
    ("pool_handoff_then_reset_to_start", "hand-off via try_get_with_capacity, pool.reset_to_start()", "thorough"),
]:
    H("kani-arena", "pool::" + name, ["C19"], stubbing=True, cbmc_args=FS, inst=inst, tier=tier,
      bounds="2 logical threads, 4 pool operations in a FIXED order per harness (hand-off / overlap), <= 2 arenas of one 48-byte chunk, symbolic data; real preemption NOT modelled", unwind=7, timeout_s=2400, mem_gb=10,
      note=AR_STUBS + "; std::sync::Mutex::lock stubbed by must-succeed try_lock")

for name, inst, tier in [
    ("pool_multi_chunk_reset", "one guard whose arena grew a second chunk (inside a scope => rewound, or by a plain allocation); guard returned; pool.reset() = Bump::reset() on that arena", "quick"),
    ("pool_multi_chunk_reset_to_start", "same, pool.reset_to_start()", "thorough"),
    ("pool_multi_chunk_drop", "same, drop(pool)", "thorough"),
]:
    H("kani-arena", "pool2::" + name, ["C19"], stubbing=True, cbmc_args=FS, inst=inst, tier=tier,
      bounds="1 guard, arena of 2 chunks (48 B + 112 B), rewound or in use (symbolic); one pool-wide operation", unwind=7, timeout_s=2400, mem_gb=8,
      note=AR_STUBS + "; std::sync::Mutex::lock stubbed by must-succeed try_lock")


# Harnesses that exist but have not (yet) been run to completion within the machine's budget are parked here: they are
# NOT part of any tier (a check must never be inconclusive on the unchanged tree); `bin/check --exp` runs them.
EXPERIMENTAL = {
    "vec_reserve_any": "out of memory at 16 GB after 27 min (symbolic usize flowing through the chunk-size arithmetic and the slow path)",
}
# every BumpVec-level arena harness (vecs.rs) and the BumpVec lock-step harnesses: none finishes within 30 min / 20 GB
# (each push keeps the whole grow machinery alive and `in_another_chunk` is unrolled to the unwinding bound at every
# call site); replaced by the slice-level harnesses of slices.rs
for _n in ["vec_push_grow_up1_newest", "vec_push_grow_down1_newest", "vec_push_grow_up1_blocked", "vec_push_grow_up1_newchunk", "vec_push_grow_down4_newchunk",
           "vec_push_grow_drops_up1", "vec_push_grow_drops_down1_blocked", "vec_push_grow_drops_up1_newchunk", "vec_split_independent_up1",
           "vec_split_independent_down1", "vec_split_independent_up1_b1", "vec_shrink_min_align_down8", "vec_shrink_min_align_up4", "vec_shrink_min_align_down1",
           "fail_vec_up", "fail_vec_down", "entry_vec_typed_vs_dyn_up1", "entry_vec_typed_vs_dyn_nodealloc_up1", "entry_vec_typed_vs_dyn_nodealloc_down4",
           "entry_vec_typed_vs_dyn_noshrink_down1"]:
    EXPERIMENTAL[_n] = "BumpVec on the real arena: not decided within 30 min / 20 GB"
EXPERIMENTAL["fail_retained_mutvecrev_down1"] = "stopped at 13 GB and growing after 12 min (the upward MutBumpVec twin needs 14 GB / 16 min)"
for _n in ["splice_exact_fit_up1", "splice_exact_fit_down1"]:
    EXPERIMENTAL[_n] = "BumpVec::splice on the real arena: timeout after 25 min (Splice/Drain drop glue + grow machinery)"
EXPERIMENTAL["step_down1_switch_grow"] = "out of memory (downward grow into a new chunk: overlapping-copy case split on top of the chunk switch)"
for _n in ["scope_scoped_down1_b1", "scope_checkpoint_down4_b1", "claim_down8_b1", "aligned_16_to_2_down_b1"]:
    EXPERIMENTAL[_n] = "downward chunk switch inside a scope/claim/aligned region: exceeds 16 GB (DESIGN.md 2.5: downward multi-chunk shapes)"
for _n in ["mutvec_u16_down1_grow_final", "mutvec_u8_up1_grow_drop", "mutvecrev_u16_up1_grow_final", "mutvecrev_u8_down4_grow_drop"]:
    EXPERIMENTAL[_n] = "growth by copy into a new chunk: exceeds 16 GB (the upward u16 variant passes with 26 GB and stays in the thorough tier)"
EXPERIMENTAL["pool_overlap_then_reset"] = "out of memory at 17 GB (two arenas + pool.reset walking both)"


def for_property(pid, tier, exp=False):
    out = []
    for h in HARNESSES:
        if pid not in h["props"]:
            continue
        if (h["name"] in EXPERIMENTAL) != exp:
            continue
        if not exp and tier == "quick" and h["tier"] != "quick":
            continue
        out.append(h)
    return out


def by_name(name):
    for h in HARNESSES:
        if h["path"] == name or h["name"] == name:
            return h
    return None
