"""Harness registry: which Kani harness serves which property, in which tier, under which budget.

Every entry is one solver query family (one `#[kani::proof]` = one monomorphic instantiation).
`mem_gb` / `timeout_s` are >= 1.5x / 2x the measured values; exceeding them is *inconclusive*.
"""

HARNESSES = []


def H(crate, path, props, tier="quick", kind="proof", timeout_s=600, mem_gb=2, stubbing=False, cbmc_args=(), expect_fail=(), bounds="", inst="", unwind=None, note=""):
    HARNESSES.append(
        dict(
            crate=crate,
            path=path,
            name=path.split("::")[-1],
            props=list(props),
            tier=tier,
            kind=kind,
            timeout_s=timeout_s,
            mem_gb=mem_gb,
            stubbing=stubbing,
            cbmc_args=list(cbmc_args),
            expect_fail=list(expect_fail),
            bounds=bounds,
            inst=inst,
            unwind=unwind,
            note=note,
        )
    )


# ------------------------------------------------------------------------------------------------
# E-pure: C11 (src/bumping.rs)
# ------------------------------------------------------------------------------------------------
FULL64 = "none: loop-free, all 64-bit start/end/size, align 2^0..2^63, min_align 2^0..2^4"
for d in ("up", "down"):
    for hint in ("fff", "fft", "tff", "tft", "ttf", "ttt"):
        H("kani-pure", "c11::c11_%s_spec_%s" % (d, hint), ["C11"], bounds=FULL64, inst="hints(align_const,size_const,size_mult_align)=%s" % hint, timeout_s=900)
    H("kani-pure", "c11::c11_%s_hint_independent" % d, ["C11"], bounds=FULL64, inst="symbolic truthful hints vs no hints; regular or dummy range", timeout_s=900)
    H("kani-pure", "c11::c11_dummy_%s" % d, ["C11", "C14"], bounds=FULL64, inst="dummy range, symbolic hints")
    H("kani-pure", "c11::c11_dummy_prepare_%s" % d, ["C11", "C14"], bounds=FULL64, inst="dummy range, symbolic hints, array layouts")
    H("kani-pure", "c11::c11_prepare_%s_spec" % d, ["C11"], bounds=FULL64, inst="array layouts, symbolic hints", timeout_s=900)
    H("kani-pure", "c11::c11_canary_%s" % d, ["C11"], kind="canary", expect_fail=["CANARY"], bounds=FULL64, inst="deliberately false claim must be refuted")

# ------------------------------------------------------------------------------------------------
# E-pure: C12 (src/chunk/size_config.rs composed with src/bumping.rs)
# ------------------------------------------------------------------------------------------------
C12B = "none: loop-free; any Layout, base-allocator value layout size 0..256 / align 1..256, any MINIMUM_CHUNK_SIZE, any previous chunk size (multiple of 16), any base address and any over-grant, min_align 1..16, all truthful hints"
for d in ("up", "down"):
    H("kani-pure", "c12::c12_create_fits_%s" % d, ["C12"], bounds=C12B, inst="direction " + d, timeout_s=1800, mem_gb=2)
    H("kani-pure", "c12::c12_create_fits_prepare_%s" % d, ["C12"], bounds=C12B, inst="array layouts, prepare variant, direction " + d, timeout_s=1800, mem_gb=2)
    H("kani-pure", "c12::c12_size_from_hint_%s" % d, ["C12"], bounds=C12B, inst="raw size hint (Bump::with_size / minimum chunk size), direction " + d, timeout_s=900)
H("kani-pure", "c12::c12_canary_create", ["C12"], kind="canary", expect_fail=["CANARY"], bounds=C12B, inst="deliberately false claim must be refuted")

# ------------------------------------------------------------------------------------------------
# E-slice: one operation from an arbitrary state (len <= CAP = 4) over a stack array
# ------------------------------------------------------------------------------------------------
SLB = "len <= 4 (CAP), ids 0..len with symbolic payload bytes; all argument values (usize) unless stated; unwind 10"
SL_STUBS = "stubs: core::ptr::copy / copy_nonoverlapping -> count-case-split copy (CBMC drops the last multi-byte element on symbolic counts)"


def S(mod, name, props, inst, **kw):
    kw.setdefault("timeout_s", 600)
    kw.setdefault("mem_gb", 3)
    H("kani-slice", "%s::%s" % (mod, name), props, stubbing=True, bounds=SLB, inst=inst, unwind=10, note=SL_STUBS, **kw)


S("boxed", "box_pop", ["C06", "C08"], "BumpBox<[E]>::pop")
S("boxed", "box_clear", ["C06", "C08"], "BumpBox<[E]>::clear")
S("boxed", "box_truncate", ["C06", "C08"], "BumpBox<[E]>::truncate(n), any n")
S("boxed", "box_remove", ["C06", "C08"], "BumpBox<[E]>::remove(i), i < len")
S("boxed", "box_swap_remove", ["C06", "C08"], "BumpBox<[E]>::swap_remove(i), i < len")
S("boxed", "box_split_off", ["C16", "C06"], "BumpBox<[E]>::split_off(start..end), every prefix/suffix/empty/full range; then drop either part first")
S("boxed", "box_split_off_interior", ["C16", "C06"], "split_off of every interior non-empty range (4 concrete shapes for len <= 4, payloads symbolic): both rotate branches")
S("boxed", "box_split_at_merge", ["C16"], "split_at(at) then merge")
S("boxed", "box_split_first_last", ["C16", "C06"], "split_first / split_last")
S("boxed", "box_split_off_first_last", ["C16", "C06"], "split_off_first / split_off_last")
S("boxed", "box_retain", ["C06", "C08"], "retain under every predicate (mask)")
S("boxed", "box_drain", ["C06", "C08"], "drain(start..end) consumed 0..2 front / 0..1 back then dropped")
S("boxed", "box_extract_if", ["C06", "C08"], "extract_if under every predicate, consumed 0..4 then dropped")
S("boxed", "box_dedup_by", ["C06", "C08"], "dedup_by under every neighbour relation")
S("boxed", "box_partition", ["C16", "C06"], "partition under every predicate")
S("boxed", "box_map_in_place", ["C16", "C06"], "map_in_place E -> u8")
S("boxed", "box_map_in_place_same", ["C16", "C06"], "map_in_place E -> E")
S("boxed", "box_into_iter", ["C06", "C08"], "into_iter consumed 0..2 from each end then dropped")
S("boxed", "box_into_flattened", ["C16", "C06"], "BumpBox<[[E;2]]>::into_flattened, 0..2 arrays")
S("boxed", "box_single_routes", ["C06"], "BumpBox<E>: drop / into_inner / leak / into_raw+from_raw")
S("boxed", "box_zst_ops", ["C06", "C08", "C16"], "zero-sized elements: pop/truncate/remove/swap_remove/split_off/clear")

S("fixed", "fixed_try_push", ["C08", "C06", "C07"], "FixedBumpVec::try_push on every state (full => Err, value consumed once)")
S("fixed", "fixed_try_insert", ["C08", "C06", "C07"], "FixedBumpVec::try_insert(i, x), i <= len")
S("fixed", "fixed_remove_ops", ["C08", "C06"], "remove / swap_remove / pop / pop_if")
S("fixed", "fixed_truncate_clear", ["C08", "C06"], "truncate(n) / clear")
S("fixed", "fixed_extend_clone", ["C08", "C07"], "try_extend_from_slice_clone / try_extend_from_within_clone / try_resize (0..2 new elements)")
S("fixed", "fixed_append", ["C06", "C08", "C07"], "try_append(BumpBox<[E]>) with 0..2 elements: ownership hand-over, all-or-nothing")
S("fixed", "fixed_split_off", ["C16", "C08"], "FixedBumpVec::split_off prefix/suffix/empty/full: partition, capacities add up, parts independent")
S("fixed", "fixed_split_off_interior", ["C16", "C08"], "FixedBumpVec::split_off interior ranges (4 concrete shapes)")
S("fixed", "fixed_split_at_spare", ["C16"], "split_at_spare")
S("fixed", "fixed_try_reserve", ["C07", "C08"], "try_reserve(additional), any usize")
S("fixed", "fixed_zst_capacity", ["C08", "C06"], "zero-sized elements: capacity usize::MAX, 0..3 pushes")


def P(name, props, inst, expect):
    H("kani-slice", "panics::%s" % name, props, kind="must_panic", expect_fail=expect, stubbing=True, bounds=SLB, inst=inst, unwind=10, timeout_s=600, mem_gb=3,
      note=SL_STUBS + "; std ptr_rotate stubbed by a failing assertion (never reached on a panicking path)")


P("panic_box_remove_oob", ["C08"], "BumpBox<[E]>::remove(i), every i >= len", [r"remove::assert_failed"])
P("panic_box_swap_remove_oob", ["C08"], "swap_remove(i), every i >= len", [r"swap_remove::assert_failed"])
P("panic_box_split_off_bad_range", ["C08", "C16"], "split_off(s..e), every s > e or e > len", [r"slice_index_order_fail|slice_end_index_len_fail"])
P("panic_box_split_at_oob", ["C08", "C16"], "split_at(at), every at > len", [r"split_at::assert_failed"])
P("panic_box_drain_bad_range", ["C08"], "drain(s..e), every invalid range", [r"slice_index_order_fail|slice_end_index_len_fail"])
P("panic_box_merge_not_adjacent", ["C16"], "merge(right, left) of the two halves of every split", [r"merge::assert_failed"])
P("panic_fixed_push_full", ["C08", "C07"], "FixedBumpVec::push on a full vector", [r"fixed_size_vector_is_full"])
P("panic_fixed_insert_oob", ["C08"], "insert(i, x), every i > len", [r"generic_insert_mut::assert_failed"])
P("panic_fixed_remove_oob", ["C08"], "FixedBumpVec::remove / swap_remove, every i >= len", [r"remove::assert_failed"])
P("panic_fixed_extend_from_within_oob", ["C08"], "extend_from_within_clone(s..e), every invalid range", [r"slice_index_order_fail|slice_end_index_len_fail"])
S("panics", "nopanic_box_in_range", ["C08"], "in-range remove / swap_remove / drain never reach a panic")

# strings (C09)
STB = "every valid UTF-8 text of <= 4 bytes (1-4 byte chars and mixes) in a fixed string of capacity 8; every index/range; any char; inserted &str <= 2 bytes; unwind 10"
for name, inst in [
    ("str_push", "try_push(any char)"), ("str_push_str", "try_push_str(any valid <=2 bytes)"), ("str_insert", "try_insert(idx, any char) at every boundary"),
    ("str_insert_str", "try_insert_str at every boundary"), ("str_remove", "remove(idx) at every boundary < len"), ("str_pop_truncate_clear", "pop / truncate(n) / clear"),
    ("str_retain", "retain under every predicate over char positions"), ("str_drain_split_off", "drain(a..b) and split_off(a..b) at every pair of boundaries (split_off: non-rotating ranges)"),
    ("str_replace_range", "try_replace_range(a..b, any valid <=2 bytes)"), ("str_extend_from_within", "try_extend_from_within(a..b)"),
    ("str_full_refuses", "full fixed string: try_push / try_insert / try_push_str => Err, unchanged"), ("str_from_utf8_arbitrary", "FixedBumpString::from_utf8 on ARBITRARY <=4 bytes vs core::str::from_utf8"),
]:
    props = ["C09"] + (["C16"] if "split_off" in name else [])
    if name == "str_from_utf8_arbitrary":
        H("kani-slice", "strings::" + name, props, stubbing=True, bounds=STB, inst=inst, unwind=10, timeout_s=1200, mem_gb=4, note=SL_STUBS)
        continue
    H("kani-slice", "strings::" + name, props, stubbing=True, bounds=STB, inst=inst + " [validity oracle: scalar validator proven equal to core on <=4 bytes]", unwind=10, timeout_s=1200, mem_gb=4, note=SL_STUBS)
    H("kani-slice", "strings::" + name + "_core", props, tier="thorough", stubbing=True, bounds=STB, inst=inst + " [validity oracle: core::str::from_utf8]", unwind=10, timeout_s=3600, mem_gb=12, note=SL_STUBS)
H("kani-slice", "strings::str_validity_model_equals_core", ["C09"], stubbing=True, bounds="every byte string of length <= 4", inst="scalar UTF-8 validator == core::str::from_utf8(..).is_ok()", unwind=10, timeout_s=1200, mem_gb=4, note=SL_STUBS)
H("kani-slice", "strings::panic_str_bad_index_core", ["C09"], tier="thorough", kind="must_panic", expect_fail=[r"assert_char_boundary|slice_error_fail|str::|remove|slice_index|slice_end|slice_start|panic"], stubbing=True, bounds=STB,
  inst="as panic_str_bad_index with core validity", unwind=10, timeout_s=3600, mem_gb=8, note=SL_STUBS)
H("kani-slice", "strings::panic_str_bad_index", ["C09"], kind="must_panic", expect_fail=[r"assert_char_boundary|slice_error_fail|str::|remove|slice_index|slice_end|slice_start|panic"], stubbing=True, bounds=STB,
  inst="insert / insert_str / remove / truncate / replace_range with every index that is out of range or not a char boundary", unwind=10, timeout_s=1200, mem_gb=4, note=SL_STUBS)


def for_property(pid, tier):
    out = []
    for h in HARNESSES:
        if pid not in h["props"]:
            continue
        if tier == "quick" and h["tier"] != "quick":
            continue
        out.append(h)
    return out


def by_name(name):
    for h in HARNESSES:
        if h["path"] == name or h["name"] == name:
            return h
    return None
