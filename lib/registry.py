"""Harness registry: which Kani harness serves which property, in which tier, under which budget.

Every entry is one solver query family (one `#[kani::proof]` = one monomorphic instantiation).
`mem_gb` / `timeout_s` are >= 1.5x / 2x the measured values; exceeding them is *inconclusive*.
"""

HARNESSES = []


def H(crate, path, props, tier="quick", kind="proof", timeout_s=600, mem_gb=2, stubbing=False, cbmc_args=(), expect_fail=(), bounds="", inst="", unwind=None, note=""):
    HARNESSES.append(
        dict(
            crate=crate,
            path=path,
            name=path.split("::")[-1],
            props=list(props),
            tier=tier,
            kind=kind,
            timeout_s=timeout_s,
            mem_gb=mem_gb,
            stubbing=stubbing,
            cbmc_args=list(cbmc_args),
            expect_fail=list(expect_fail),
            bounds=bounds,
            inst=inst,
            unwind=unwind,
            note=note,
        )
    )


# ------------------------------------------------------------------------------------------------
# E-pure: C11 (src/bumping.rs)
# ------------------------------------------------------------------------------------------------
FULL64 = "none: loop-free, all 64-bit start/end/size, align 2^0..2^63, min_align 2^0..2^4"
for d in ("up", "down"):
    for hint in ("fff", "fft", "tff", "tft", "ttf", "ttt"):
        H("kani-pure", "c11::c11_%s_spec_%s" % (d, hint), ["C11"], bounds=FULL64, inst="hints(align_const,size_const,size_mult_align)=%s" % hint, timeout_s=900)
    H("kani-pure", "c11::c11_%s_hint_independent" % d, ["C11"], bounds=FULL64, inst="symbolic truthful hints vs no hints; regular or dummy range", timeout_s=900)
    H("kani-pure", "c11::c11_dummy_%s" % d, ["C11", "C14"], bounds=FULL64, inst="dummy range, symbolic hints")
    H("kani-pure", "c11::c11_dummy_prepare_%s" % d, ["C11", "C14"], bounds=FULL64, inst="dummy range, symbolic hints, array layouts")
    H("kani-pure", "c11::c11_prepare_%s_spec" % d, ["C11"], bounds=FULL64, inst="array layouts, symbolic hints", timeout_s=900)
    H("kani-pure", "c11::c11_canary_%s" % d, ["C11"], kind="canary", expect_fail=["CANARY"], bounds=FULL64, inst="deliberately false claim must be refuted")

# ------------------------------------------------------------------------------------------------
# E-pure: C12 (src/chunk/size_config.rs composed with src/bumping.rs)
# ------------------------------------------------------------------------------------------------
C12B = "none: loop-free; any Layout, base-allocator value layout size 0..256 / align 1..256, any MINIMUM_CHUNK_SIZE, any previous chunk size (multiple of 16), any base address and any over-grant, min_align 1..16, all truthful hints"
for d in ("up", "down"):
    H("kani-pure", "c12::c12_create_fits_%s" % d, ["C12"], bounds=C12B, inst="direction " + d, timeout_s=1800, mem_gb=2)
    H("kani-pure", "c12::c12_create_fits_prepare_%s" % d, ["C12"], bounds=C12B, inst="array layouts, prepare variant, direction " + d, timeout_s=1800, mem_gb=2)
    H("kani-pure", "c12::c12_size_from_hint_%s" % d, ["C12"], bounds=C12B, inst="raw size hint (Bump::with_size / minimum chunk size), direction " + d, timeout_s=900)
H("kani-pure", "c12::c12_canary_create", ["C12"], kind="canary", expect_fail=["CANARY"], bounds=C12B, inst="deliberately false claim must be refuted")


def for_property(pid, tier):
    out = []
    for h in HARNESSES:
        if pid not in h["props"]:
            continue
        if tier == "quick" and h["tier"] != "quick":
            continue
        out.append(h)
    return out


def by_name(name):
    for h in HARNESSES:
        if h["path"] == name or h["name"] == name:
            return h
    return None
