//! Shared state construction and oracles for the E-slice harnesses.
use bump_scope::{BumpBox, FixedBumpVec};
use core::mem::MaybeUninit;
use core::ptr::NonNull;

/// capacity bound of every E-slice harness: states are (len <= CAP, contents)
pub const CAP: usize = 4;
/// ids that exist in a harness: 0..CAP are the initial elements, CAP.. are values handed in by the operation
pub const NIDS: usize = 2 * CAP;

pub static mut DROPS: [u8; NIDS] = [0; NIDS];
pub static mut ZDROPS: usize = 0;

/// Instrumented element: `id` identifies the value, `val` is a symbolic payload that must travel with it.
/// A second drop of the same id is an immediate failed check.
pub struct E {
    pub id: u8,
    pub val: u8,
}

impl Drop for E {
    fn drop(&mut self) {
        unsafe {
            let i = self.id as usize;
            assert!(i < NIDS, "C06: dropped a value that was never created (garbage id)");
            assert!(DROPS[i] == 0, "C06: value dropped twice");
            DROPS[i] = 1;
        }
    }
}

impl Clone for E {
    fn clone(&self) -> Self {
        // clones get a fresh id: original id + CAP (harnesses only clone ids < CAP)
        E {
            id: self.id + CAP as u8,
            val: self.val,
        }
    }
}

/// Zero-sized instrumented element.
pub struct Z;

impl Drop for Z {
    fn drop(&mut self) {
        unsafe {
            ZDROPS += 1;
        }
    }
}

pub fn drops(id: usize) -> u8 {
    unsafe { DROPS[id] }
}

pub fn zdrops() -> usize {
    unsafe { ZDROPS }
}

/// every id in `0..n` has been dropped exactly once (twice is caught in `Drop`)
pub fn assert_dropped_once(n: usize) {
    let mut k = 0;
    while k < NIDS {
        if k < n {
            assert!(drops(k) == 1, "C06: value lost (never dropped although every owner is gone)");
        }
        k += 1;
    }
}

pub fn assert_not_dropped(id: usize) {
    assert!(drops(id) == 0, "C06: value dropped although it is still owned");
}

pub type Buf = [MaybeUninit<E>; CAP];

pub fn new_buf() -> Buf {
    [const { MaybeUninit::<E>::uninit() }; CAP]
}

pub fn any_len() -> usize {
    let len: usize = kani::any();
    kani::assume(len <= CAP);
    len
}

pub fn any_vals() -> [u8; NIDS] {
    kani::any()
}

/// An arbitrary valid `FixedBumpVec<E>` state of capacity `CAP`: `len` elements with ids `0..len`.
/// Built without any library algorithm: raw writes + `from_raw` + `from_uninit` + `set_len`.
pub unsafe fn fixed<'a>(buf: &mut Buf, len: usize, vals: &[u8; NIDS]) -> FixedBumpVec<'a, E> {
    unsafe {
        let mut k = 0;
        while k < CAP {
            if k < len {
                buf[k].write(E { id: k as u8, val: vals[k] });
            }
            k += 1;
        }
        let ptr = NonNull::new_unchecked(buf.as_mut_ptr());
        let boxed: BumpBox<'a, [MaybeUninit<E>]> = BumpBox::from_raw(NonNull::slice_from_raw_parts(ptr, CAP));
        let mut v = FixedBumpVec::from_uninit(boxed);
        v.set_len(len);
        v
    }
}

/// An arbitrary valid `BumpBox<[E]>` of length `len` (ids `0..len`) at the start of `buf`.
pub unsafe fn boxed<'a>(buf: &mut Buf, len: usize, vals: &[u8; NIDS]) -> BumpBox<'a, [E]> {
    unsafe {
        let mut k = 0;
        while k < CAP {
            if k < len {
                buf[k].write(E { id: k as u8, val: vals[k] });
            }
            k += 1;
        }
        let ptr = NonNull::new_unchecked(buf.as_mut_ptr()).cast::<E>();
        BumpBox::from_raw(NonNull::slice_from_raw_parts(ptr, len))
    }
}

/// Reference model of a vector: the ids in order.
#[derive(Clone, Copy)]
pub struct Model {
    pub ids: [u8; 2 * CAP],
    pub len: usize,
}

impl Model {
    pub fn initial(len: usize) -> Self {
        let mut ids = [0u8; 2 * CAP];
        let mut k = 0;
        while k < 2 * CAP {
            ids[k] = k as u8;
            k += 1;
        }
        Model { ids, len }
    }
    pub fn empty() -> Self {
        Model { ids: [0; 2 * CAP], len: 0 }
    }
    pub fn push(&mut self, id: u8) {
        self.ids[self.len] = id;
        self.len += 1;
    }
    /// std `Vec::remove`
    pub fn remove(&mut self, i: usize) -> u8 {
        let r = self.ids[i];
        let mut k = 0;
        while k + 1 < 2 * CAP {
            if k >= i {
                self.ids[k] = self.ids[k + 1];
            }
            k += 1;
        }
        self.len -= 1;
        r
    }
    /// std `Vec::insert`
    pub fn insert(&mut self, i: usize, id: u8) {
        let mut k = 2 * CAP - 1;
        while k > 0 {
            if k > i {
                self.ids[k] = self.ids[k - 1];
            }
            k -= 1;
        }
        self.ids[i] = id;
        self.len += 1;
    }
    /// std `Vec::swap_remove`
    pub fn swap_remove(&mut self, i: usize) -> u8 {
        let r = self.ids[i];
        self.ids[i] = self.ids[self.len - 1];
        self.len -= 1;
        r
    }
}

/// `s` holds exactly the model's elements in the model's order, payloads intact.
pub fn assert_is(s: &[E], m: &Model, vals: &[u8; NIDS]) {
    assert!(s.len() == m.len, "model: length differs from the reference Vec semantics");
    let mut k = 0;
    while k < 2 * CAP {
        if k < m.len {
            assert!(s[k].id == m.ids[k], "model: element order/identity differs from the reference Vec semantics");
            assert!(s[k].val == vals[m.ids[k] as usize], "model: element payload corrupted");
        }
        k += 1;
    }
}

/// a larger buffer for the concrete-shape harnesses (interior split ranges need len 5..6 to tell rotate_left from
/// rotate_right)
pub const CAP6: usize = 6;
pub type Buf6 = [MaybeUninit<E>; CAP6];

pub fn new_buf6() -> Buf6 {
    [const { MaybeUninit::<E>::uninit() }; CAP6]
}

pub unsafe fn boxed6<'a>(buf: &mut Buf6, len: usize, vals: &[u8; NIDS]) -> BumpBox<'a, [E]> {
    unsafe {
        let mut k = 0;
        while k < CAP6 {
            if k < len {
                buf[k].write(E { id: k as u8, val: vals[k] });
            }
            k += 1;
        }
        let ptr = NonNull::new_unchecked(buf.as_mut_ptr()).cast::<E>();
        BumpBox::from_raw(NonNull::slice_from_raw_parts(ptr, len))
    }
}

pub unsafe fn fixed6<'a>(buf: &mut Buf6, len: usize, vals: &[u8; NIDS]) -> FixedBumpVec<'a, E> {
    unsafe {
        let mut k = 0;
        while k < CAP6 {
            if k < len {
                buf[k].write(E { id: k as u8, val: vals[k] });
            }
            k += 1;
        }
        let ptr = NonNull::new_unchecked(buf.as_mut_ptr());
        let boxed: BumpBox<'a, [MaybeUninit<E>]> = BumpBox::from_raw(NonNull::slice_from_raw_parts(ptr, CAP6));
        let mut v = FixedBumpVec::from_uninit(boxed);
        v.set_len(len);
        v
    }
}
