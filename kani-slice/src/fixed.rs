//! `FixedBumpVec<T>` — fixed capacity, never reallocates, fails when full.
//! One operation from an arbitrary valid state (len <= cap = CAP).
use crate::boxed::no_rotate;
use crate::common::*;
use bump_scope::{BumpBox, FixedBumpVec};
use core::mem::{self, MaybeUninit};
use core::ptr::NonNull;

macro_rules! state {
    ($buf:ident, $vals:ident, $len:ident, $v:ident, $m:ident, $a:ident) => {
        let $vals = any_vals();
        let $len = any_len();
        let mut $buf = new_buf();
        #[allow(unused_mut)]
        let mut $v = unsafe { fixed(&mut $buf, $len, &$vals) };
        #[allow(unused_mut)]
        let mut $m = Model::initial($len);
        let $a = $v.as_ptr() as usize;
    };
}

/// capacity clauses of C08 that every FixedBumpVec harness re-checks after its operation
fn assert_fixed_invariants(v: &FixedBumpVec<E>, addr0: usize) {
    assert!(v.capacity() >= v.len(), "C08: capacity smaller than length");
    assert!(v.capacity() == CAP, "C08: fixed vector changed its capacity");
    assert!(v.as_ptr() as usize == addr0, "C08: fixed vector moved its buffer");
}

#[kani::proof]
#[kani::unwind(10)]
#[kani::stub(core::ptr::copy, crate::stubs::copy_stub)]
#[kani::stub(core::ptr::copy_nonoverlapping, crate::stubs::copy_stub)]
fn fixed_try_push() {
    state!(buf, vals, len, v, m, addr0);
    let r = v.try_push(E { id: CAP as u8, val: vals[CAP] });
    kani::cover!(r.is_ok(), "pushed");
    kani::cover!(r.is_err(), "full");
    match r {
        Ok(()) => {
            assert!(len < CAP, "C08: try_push succeeded on a full fixed vector");
            m.push(CAP as u8);
        }
        Err(_) => {
            assert!(len == CAP, "C07: try_push failed although there is room");
            // the rejected value was consumed (dropped) by the failed call, exactly once
            assert!(drops(CAP) == 1, "C06: value of a failed try_push lost or dropped twice");
        }
    }
    assert_is(&v, &m, &vals);
    assert_fixed_invariants(&v, addr0);
    drop(v);
    assert_dropped_once(len);
    assert!(drops(CAP) == 1, "C06: pushed value not dropped exactly once");
    kani::cover!(true, "END: harness ran to completion");
}

#[kani::proof]
#[kani::unwind(10)]
#[kani::stub(core::ptr::copy, crate::stubs::copy_stub)]
#[kani::stub(core::ptr::copy_nonoverlapping, crate::stubs::copy_stub)]
fn fixed_try_insert() {
    state!(buf, vals, len, v, m, addr0);
    let i: usize = kani::any();
    kani::assume(i <= len);
    let r = v.try_insert(i, E { id: CAP as u8, val: vals[CAP] });
    kani::cover!(r.is_ok() && i == 0 && len == CAP - 1, "insert at the front filling the vector");
    kani::cover!(r.is_ok() && i == len, "insert at the end");
    kani::cover!(r.is_err(), "full");
    match r {
        Ok(()) => {
            assert!(len < CAP, "C08: try_insert succeeded on a full fixed vector");
            m.insert(i, CAP as u8);
        }
        Err(_) => {
            assert!(len == CAP, "C07: try_insert failed although there is room");
            assert!(drops(CAP) == 1, "C06: value of a failed try_insert lost or dropped twice");
        }
    }
    assert_is(&v, &m, &vals);
    assert_fixed_invariants(&v, addr0);
    drop(v);
    assert_dropped_once(len);
    assert!(drops(CAP) == 1, "C06: inserted value not dropped exactly once");
    kani::cover!(true, "END: harness ran to completion");
}

#[kani::proof]
#[kani::unwind(10)]
#[kani::stub(core::ptr::copy, crate::stubs::copy_stub)]
#[kani::stub(core::ptr::copy_nonoverlapping, crate::stubs::copy_stub)]
fn fixed_remove_ops() {
    state!(buf, vals, len, v, m, addr0);
    let op: u8 = kani::any();
    kani::assume(op < 4);
    match op {
        0 => {
            let i: usize = kani::any();
            kani::assume(i < len);
            let r = v.remove(i);
            let rid = m.remove(i);
            assert!(r.id == rid && r.val == vals[rid as usize], "C08: remove returned the wrong value");
        }
        1 => {
            let i: usize = kani::any();
            kani::assume(i < len);
            let r = v.swap_remove(i);
            let rid = m.swap_remove(i);
            assert!(r.id == rid && r.val == vals[rid as usize], "C08: swap_remove returned the wrong value");
        }
        2 => {
            let r = v.pop();
            assert!(r.is_some() == (len > 0), "C08: pop");
            if len > 0 {
                m.len -= 1;
            }
        }
        _ => {
            let want: bool = kani::any();
            let r = v.pop_if(|e| {
                assert!(e.id as usize == len - 1, "C08: pop_if showed the wrong element");
                want
            });
            assert!(r.is_some() == (len > 0 && want), "C08: pop_if");
            if len > 0 && want {
                m.len -= 1;
            }
        }
    }
    kani::cover!(op == 0 && len == CAP, "remove from a full vector");
    kani::cover!(op == 3 && len > 0, "pop_if on a non-empty vector");
    assert_is(&v, &m, &vals);
    assert_fixed_invariants(&v, addr0);
    drop(v);
    assert_dropped_once(len);
    kani::cover!(true, "END: harness ran to completion");
}

#[kani::proof]
#[kani::unwind(10)]
#[kani::stub(core::ptr::copy, crate::stubs::copy_stub)]
#[kani::stub(core::ptr::copy_nonoverlapping, crate::stubs::copy_stub)]
fn fixed_truncate_clear() {
    state!(buf, vals, len, v, m, addr0);
    let n: usize = kani::any();
    let clear: bool = kani::any();
    if clear {
        v.clear();
        m.len = 0;
    } else {
        v.truncate(n);
        m.len = if n < len { n } else { len };
    }
    kani::cover!(!clear && n < len && n > 0, "truncate to a non-empty prefix");
    assert_is(&v, &m, &vals);
    assert_fixed_invariants(&v, addr0);
    let mut k = 0;
    while k < CAP {
        if k < len {
            assert!(drops(k) == if k < m.len { 0 } else { 1 }, "C06: truncate/clear dropped the wrong elements");
        }
        k += 1;
    }
    drop(v);
    assert_dropped_once(len);
    kani::cover!(true, "END: harness ran to completion");
}

/// try_extend_from_slice_clone / try_extend_from_within_clone / try_resize: all-or-nothing
#[kani::proof]
#[kani::unwind(10)]
#[kani::stub(core::ptr::copy, crate::stubs::copy_stub)]
#[kani::stub(core::ptr::copy_nonoverlapping, crate::stubs::copy_stub)]
fn fixed_extend_clone() {
    state!(buf, vals, len, v, m, addr0);
    let op: u8 = kani::any();
    kani::assume(op < 3);
    let n: usize = kani::any();
    kani::assume(n <= 2);
    match op {
        0 => {
            // source elements: ids 0,1 of a second array; clones get ids CAP+0, CAP+1
            let src = [E { id: 0, val: vals[CAP] }, E { id: 1, val: vals[CAP + 1] }];
            let r = v.try_extend_from_slice_clone(&src[..n]);
            mem::forget(src);
            if r.is_ok() {
                assert!(len + n <= CAP, "C08: extend beyond the fixed capacity succeeded");
                let mut k = 0;
                while k < 2 {
                    if k < n {
                        assert!(v[len + k].id as usize == CAP + k && v[len + k].val == vals[CAP + k], "C08: extend_from_slice_clone wrong element");
                    }
                    k += 1;
                }
                assert!(v.len() == len + n, "C08: extend_from_slice_clone length");
            } else {
                assert!(len + n > CAP, "C07: extend failed although there is room");
                assert_is(&v, &m, &vals);
            }
            kani::cover!(r.is_ok() && n == 2, "two cloned in");
            kani::cover!(r.is_err(), "no room");
        }
        1 => {
            // clone the first n elements to the end
            kani::assume(n <= len);
            let r = v.try_extend_from_within_clone(0..n);
            if r.is_ok() {
                assert!(len + n <= CAP, "C08: extend_from_within beyond the fixed capacity succeeded");
                assert!(v.len() == len + n, "C08: extend_from_within_clone length");
                let mut k = 0;
                while k < 2 {
                    if k < n {
                        assert!(v[len + k].id as usize == CAP + k && v[len + k].val == vals[k], "C08: extend_from_within_clone wrong element");
                    }
                    k += 1;
                }
            } else {
                assert!(len + n > CAP, "C07: extend_from_within failed although there is room");
                assert_is(&v, &m, &vals);
            }
            kani::cover!(r.is_ok() && n == 2, "two cloned within");
        }
        _ => {
            // resize to len + n with clones of a template (id 3 -> clones have id 7 = CAP + 3; the template itself is moved in last)
            let new_len = len + n;
            let r = v.try_resize(new_len, E { id: (CAP - 1) as u8 + 0, val: 0xAB });
            // this branch only checks length/err and drop accounting of the original elements
            if r.is_ok() {
                assert!(new_len <= CAP && v.len() == new_len, "C08: resize length");
            } else {
                assert!(new_len > CAP, "C07: resize failed although there is room");
                assert!(v.len() == len, "C07: failed resize changed the length");
            }
            kani::cover!(r.is_ok() && n == 2, "resized by two");
            mem::forget(v);
            kani::cover!(true, "END: harness ran to completion");
            return;
        }
    }
    assert_fixed_invariants(&v, addr0);
    // originals still intact
    let mut k = 0;
    while k < CAP {
        if k < len {
            assert!(v[k].id as usize == k && v[k].val == vals[k] && drops(k) == 0, "C08: extend disturbed existing elements");
        }
        k += 1;
    }
    drop(v);
    assert_dropped_once(len);
    kani::cover!(true, "END: harness ran to completion");
}

/// append: ownership of the appended elements moves (no double drop, nothing lost), all-or-nothing on failure
#[kani::proof]
#[kani::unwind(10)]
#[kani::stub(core::ptr::copy, crate::stubs::copy_stub)]
#[kani::stub(core::ptr::copy_nonoverlapping, crate::stubs::copy_stub)]
fn fixed_append() {
    state!(buf, vals, len, v, m, addr0);
    let n: usize = kani::any();
    kani::assume(n <= 2);
    let mut buf2 = [const { MaybeUninit::<E>::uninit() }; 2];
    let other: BumpBox<[E]> = unsafe {
        if n > 0 {
            buf2[0].write(E { id: CAP as u8, val: vals[CAP] });
        }
        if n > 1 {
            buf2[1].write(E { id: CAP as u8 + 1, val: vals[CAP + 1] });
        }
        BumpBox::from_raw(NonNull::slice_from_raw_parts(NonNull::new_unchecked(buf2.as_mut_ptr()).cast::<E>(), n))
    };
    let r = v.try_append(other);
    kani::cover!(r.is_ok() && n == 2, "two appended");
    kani::cover!(r.is_err(), "no room");
    if r.is_ok() {
        assert!(len + n <= CAP, "C08: append beyond the fixed capacity succeeded");
        if n > 0 {
            m.push(CAP as u8);
        }
        if n > 1 {
            m.push(CAP as u8 + 1);
        }
        assert_is(&v, &m, &vals);
        // moved, not dropped
        assert!(drops(CAP) == 0 && drops(CAP + 1) == 0, "C06: append dropped the moved elements");
    } else {
        assert!(len + n > CAP, "C07: append failed although there is room");
        assert_is(&v, &m, &vals);
        // the rejected owner was consumed by the call: its elements are dropped exactly once
        if n > 0 {
            assert!(drops(CAP) == 1, "C06: elements of a rejected append lost");
        }
        if n > 1 {
            assert!(drops(CAP + 1) == 1, "C06: elements of a rejected append lost");
        }
    }
    assert_fixed_invariants(&v, addr0);
    drop(v);
    assert_dropped_once(len);
    if n > 0 {
        assert!(drops(CAP) == 1, "C06: appended element not dropped exactly once");
    }
    if n > 1 {
        assert!(drops(CAP + 1) == 1, "C06: appended element not dropped exactly once");
    }
    kani::cover!(true, "END: harness ran to completion");
}

/// FixedBumpVec::split_off: parts partition the elements and the capacities add up (non-rotating ranges, symbolic)
#[kani::proof]
#[kani::unwind(10)]
#[kani::stub(core::ptr::copy, crate::stubs::copy_stub)]
#[kani::stub(core::ptr::copy_nonoverlapping, crate::stubs::copy_stub)]
#[kani::stub(core::slice::rotate::ptr_rotate, no_rotate)]
fn fixed_split_off() {
    state!(buf, vals, len, v, m, addr0);
    let start: usize = kani::any();
    let end: usize = kani::any();
    kani::assume(start <= end && end <= len);
    kani::assume(start == 0 || end == len || start == end);
    let off = v.split_off(start..end);
    fixed_split_check::<CAP>(&vals, len, v, off, start, end);
    kani::cover!(true, "END: harness ran to completion");
}

#[kani::proof]
#[kani::unwind(10)]
#[kani::stub(core::ptr::copy, crate::stubs::copy_stub)]
#[kani::stub(core::ptr::copy_nonoverlapping, crate::stubs::copy_stub)]
fn fixed_split_off_interior() {
    // all 20 interior shapes for len <= 6 in a buffer of capacity 6 (see `box_split_off_interior`)
    let vals = any_vals();
    let mut buf = new_buf6();
    let shape: u8 = kani::any();
    kani::assume(shape < 20);
    macro_rules! arm {
        ($len:literal, $s:literal, $e:literal) => {{
            let mut v = unsafe { fixed6(&mut buf, $len, &vals) };
            let off = v.split_off($s..$e);
            fixed_split_check::<CAP6>(&vals, $len, v, off, $s, $e);
        }};
    }
    kani::cover!(shape == 4, "len 5, 1..3: nearer the front, head_len != range_len (rotate_right)");
    kani::cover!(shape == 8, "len 5, 2..4: nearer the back, tail_len != range_len (rotate_left)");
    match shape {
        0 => arm!(3, 1, 2),
        1 => arm!(4, 1, 2),
        2 => arm!(4, 1, 3),
        3 => arm!(4, 2, 3),
        4 => arm!(5, 1, 3),
        5 => arm!(5, 1, 2),
        6 => arm!(5, 1, 4),
        7 => arm!(5, 2, 3),
        8 => arm!(5, 2, 4),
        9 => arm!(5, 3, 4),
        10 => arm!(6, 1, 2),
        11 => arm!(6, 1, 3),
        12 => arm!(6, 1, 4),
        13 => arm!(6, 1, 5),
        14 => arm!(6, 2, 3),
        15 => arm!(6, 2, 4),
        16 => arm!(6, 2, 5),
        17 => arm!(6, 3, 4),
        18 => arm!(6, 3, 5),
        _ => arm!(6, 4, 5),
    }
    kani::cover!(true, "END: harness ran to completion");
}

#[inline(always)]
fn fixed_split_check<const TOTAL: usize>(vals: &[u8; NIDS], len: usize, v: FixedBumpVec<E>, off: FixedBumpVec<E>, start: usize, end: usize) {
    let vals = *vals;
    let mut mo = Model::empty();
    let mut mr = Model::empty();
    let mut k = 0;
    while k < 2 * CAP {
        if k < len {
            if k >= start && k < end {
                mo.push(k as u8);
            } else {
                mr.push(k as u8);
            }
        }
        k += 1;
    }
    assert_is(&off, &mo, &vals);
    assert_is(&v, &mr, &vals);
    assert!(off.capacity() >= off.len() && v.capacity() >= v.len(), "C08: capacity smaller than length after split_off");
    assert!(off.capacity() + v.capacity() == TOTAL, "C16: capacities of the parts do not add up");
    // spare capacity ranges of the parts are disjoint: [ptr, ptr+cap) do not overlap
    let sz = mem::size_of::<E>();
    let (a1, c1) = (off.as_ptr() as usize, off.capacity());
    let (a2, c2) = (v.as_ptr() as usize, v.capacity());
    if c1 > 0 && c2 > 0 {
        assert!(a1 + c1 * sz <= a2 || a2 + c2 * sz <= a1, "C16: capacity ranges of the parts overlap");
    }
    let mut v = v;
    let mut off = off;
    // independence: push into whichever part has room; the sibling is unaffected
    let which: bool = kani::any();
    if which {
        if off.try_push(E { id: (NIDS - 1) as u8, val: 7 }).is_ok() {
            kani::cover!(true, "pushed into the split-off part");
        }
        assert_is(&v, &mr, &vals);
    } else {
        let _ = v.try_push(E { id: (NIDS - 1) as u8, val: 7 });
        assert_is(&off, &mo, &vals);
    }
    drop(off);
    drop(v);
    assert_dropped_once(len);
}

/// split_at_spare, into_boxed_slice
#[kani::proof]
#[kani::unwind(10)]
#[kani::stub(core::ptr::copy, crate::stubs::copy_stub)]
#[kani::stub(core::ptr::copy_nonoverlapping, crate::stubs::copy_stub)]
fn fixed_split_at_spare() {
    state!(buf, vals, len, v, m, addr0);
    let (init, spare) = v.split_at_spare();
    assert_is(&init, &m, &vals);
    assert!(spare.len() == CAP - len, "C16: spare part has the wrong length");
    let sz = mem::size_of::<E>();
    if len > 0 && spare.len() > 0 {
        assert!(init.as_ptr() as usize + len * sz == spare.as_ptr() as usize, "C16: spare does not follow the initialized part");
    }
    kani::cover!(len > 0 && len < CAP, "both parts non-empty");
    drop(spare);
    assert_is(&init, &m, &vals);
    drop(init);
    assert_dropped_once(len);
    kani::cover!(true, "END: harness ran to completion");
}

/// reserve on a fixed vector: Ok iff it fits; never changes anything
#[kani::proof]
#[kani::unwind(10)]
#[kani::stub(core::ptr::copy, crate::stubs::copy_stub)]
#[kani::stub(core::ptr::copy_nonoverlapping, crate::stubs::copy_stub)]
fn fixed_try_reserve() {
    state!(buf, vals, len, v, m, addr0);
    let additional: usize = kani::any();
    let r = v.try_reserve(additional);
    kani::cover!(r.is_ok() && additional > 0, "fits");
    kani::cover!(r.is_err() && additional == usize::MAX, "huge request");
    assert!(r.is_ok() == (additional <= CAP - len), "C07/C08: try_reserve verdict on a fixed vector");
    assert_is(&v, &m, &vals);
    assert_fixed_invariants(&v, addr0);
    drop(v);
    assert_dropped_once(len);
    kani::cover!(true, "END: harness ran to completion");
}

/// zero-sized elements: unlimited capacity
#[kani::proof]
#[kani::unwind(10)]
#[kani::stub(core::ptr::copy, crate::stubs::copy_stub)]
#[kani::stub(core::ptr::copy_nonoverlapping, crate::stubs::copy_stub)]
fn fixed_zst_capacity() {
    let mut v: FixedBumpVec<Z> = FixedBumpVec::new();
    assert!(v.capacity() == usize::MAX, "C08: zero-sized element type must report unlimited capacity");
    let n: usize = kani::any();
    kani::assume(n <= 3);
    let mut k = 0;
    while k < 3 {
        if k < n {
            assert!(v.try_push(Z).is_ok(), "C08: push of a zero-sized value failed");
        }
        k += 1;
    }
    assert!(v.len() == n && v.capacity() == usize::MAX, "C08: zst len/capacity");
    assert!(v.try_reserve(usize::MAX - n).is_ok(), "C08: zst reserve");
    drop(v);
    assert!(zdrops() == n, "C06: zero-sized values dropped a wrong number of times");
    kani::cover!(n == 3, "three pushed");
    kani::cover!(true, "END: harness ran to completion");
}
