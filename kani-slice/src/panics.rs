//! Must-panic harnesses (C08 "panic on the same out-of-range arguments", C07 "a panicking method never returns
//! normally"): Kani compiles `panic!` to `assert(false); assume(false)`, so the expected outcome is
//! (a) the check inside the named panic function FAILS (the panic is reachable for the out-of-range argument) and
//! (b) the cover placed after the call is UNSATISFIABLE (no path returns normally), for *every* out-of-range value.
use crate::common::*;
use bump_scope::{BumpBox, FixedBumpVec};
use core::mem;

macro_rules! bstate {
    ($buf:ident, $vals:ident, $len:ident, $b:ident) => {
        let $vals = any_vals();
        let $len = any_len();
        let mut $buf = new_buf();
        #[allow(unused_mut)]
        let mut $b = unsafe { boxed(&mut $buf, $len, &$vals) };
    };
}
macro_rules! fstate {
    ($buf:ident, $vals:ident, $len:ident, $v:ident) => {
        let $vals = any_vals();
        let $len = any_len();
        let mut $buf = new_buf();
        #[allow(unused_mut)]
        let mut $v = unsafe { fixed(&mut $buf, $len, &$vals) };
    };
}

#[kani::proof]
#[kani::unwind(10)]
#[kani::stub(core::ptr::copy, crate::stubs::copy_stub)]
#[kani::stub(core::ptr::copy_nonoverlapping, crate::stubs::copy_stub)]
#[kani::stub(core::slice::rotate::ptr_rotate, crate::boxed::no_rotate)]
fn panic_box_remove_oob() {
    bstate!(buf, vals, len, b);
    let i: usize = kani::any();
    kani::assume(i >= len);
    kani::cover!(i == len, "REACH: boundary index");
    kani::cover!(i == usize::MAX, "REACH: far-out index");
    let r = b.remove(i);
    kani::cover!(true, "UNSAT: remove returned normally for an out-of-range index");
    mem::forget(r);
    mem::forget(b);
}

#[kani::proof]
#[kani::unwind(10)]
#[kani::stub(core::ptr::copy, crate::stubs::copy_stub)]
#[kani::stub(core::ptr::copy_nonoverlapping, crate::stubs::copy_stub)]
#[kani::stub(core::slice::rotate::ptr_rotate, crate::boxed::no_rotate)]
fn panic_box_swap_remove_oob() {
    bstate!(buf, vals, len, b);
    let i: usize = kani::any();
    kani::assume(i >= len);
    kani::cover!(i == len, "REACH: boundary index");
    let r = b.swap_remove(i);
    kani::cover!(true, "UNSAT: swap_remove returned normally for an out-of-range index");
    mem::forget(r);
    mem::forget(b);
}

#[kani::proof]
#[kani::unwind(10)]
#[kani::stub(core::ptr::copy, crate::stubs::copy_stub)]
#[kani::stub(core::ptr::copy_nonoverlapping, crate::stubs::copy_stub)]
#[kani::stub(core::slice::rotate::ptr_rotate, crate::boxed::no_rotate)]
fn panic_box_split_off_bad_range() {
    bstate!(buf, vals, len, b);
    let s: usize = kani::any();
    let e: usize = kani::any();
    kani::assume(s > e || e > len);
    kani::cover!(s > e && e <= len, "REACH: start after end");
    kani::cover!(s <= e && e == len + 1, "REACH: end just past len");
    let r = b.split_off(s..e);
    kani::cover!(true, "UNSAT: split_off returned normally for an invalid range");
    mem::forget(r);
    mem::forget(b);
}

#[kani::proof]
#[kani::unwind(10)]
#[kani::stub(core::ptr::copy, crate::stubs::copy_stub)]
#[kani::stub(core::ptr::copy_nonoverlapping, crate::stubs::copy_stub)]
#[kani::stub(core::slice::rotate::ptr_rotate, crate::boxed::no_rotate)]
fn panic_box_split_at_oob() {
    bstate!(buf, vals, len, b);
    let at: usize = kani::any();
    kani::assume(at > len);
    kani::cover!(at == len + 1, "REACH: boundary index");
    let r = b.split_at(at);
    kani::cover!(true, "UNSAT: split_at returned normally for an out-of-range index");
    mem::forget(r);
}

#[kani::proof]
#[kani::unwind(10)]
#[kani::stub(core::ptr::copy, crate::stubs::copy_stub)]
#[kani::stub(core::ptr::copy_nonoverlapping, crate::stubs::copy_stub)]
#[kani::stub(core::slice::rotate::ptr_rotate, crate::boxed::no_rotate)]
fn panic_box_drain_bad_range() {
    bstate!(buf, vals, len, b);
    let s: usize = kani::any();
    let e: usize = kani::any();
    kani::assume(s > e || e > len);
    kani::cover!(s <= e && e == len + 1, "REACH: end just past len");
    {
        let d = b.drain(s..e);
        kani::cover!(true, "UNSAT: drain returned normally for an invalid range");
        mem::forget(d);
    }
    mem::forget(b);
}

#[kani::proof]
#[kani::unwind(10)]
#[kani::stub(core::ptr::copy, crate::stubs::copy_stub)]
#[kani::stub(core::ptr::copy_nonoverlapping, crate::stubs::copy_stub)]
#[kani::stub(core::slice::rotate::ptr_rotate, crate::boxed::no_rotate)]
fn panic_box_merge_not_adjacent() {
    // two parts of one block, merged in the wrong order (or with a gap) must panic
    bstate!(buf, vals, len, b);
    kani::assume(len >= 2);
    let at: usize = kani::any();
    kani::assume(at >= 1 && at < len);
    let (l, r) = b.split_at(at);
    let m = r.merge(l);
    kani::cover!(true, "UNSAT: merge accepted two slices that are not adjacent in this order");
    mem::forget(m);
}

#[kani::proof]
#[kani::unwind(10)]
#[kani::stub(core::ptr::copy, crate::stubs::copy_stub)]
#[kani::stub(core::ptr::copy_nonoverlapping, crate::stubs::copy_stub)]
#[kani::stub(core::slice::rotate::ptr_rotate, crate::boxed::no_rotate)]
fn panic_fixed_push_full() {
    fstate!(buf, vals, len, v);
    kani::assume(len == CAP);
    v.push(E { id: CAP as u8, val: 0 });
    kani::cover!(true, "UNSAT: push returned normally on a full fixed vector");
    mem::forget(v);
}

#[kani::proof]
#[kani::unwind(10)]
#[kani::stub(core::ptr::copy, crate::stubs::copy_stub)]
#[kani::stub(core::ptr::copy_nonoverlapping, crate::stubs::copy_stub)]
#[kani::stub(core::slice::rotate::ptr_rotate, crate::boxed::no_rotate)]
fn panic_fixed_insert_oob() {
    fstate!(buf, vals, len, v);
    let i: usize = kani::any();
    kani::assume(i > len);
    kani::cover!(i == len + 1 && len < CAP, "REACH: boundary index with room left");
    let r = v.try_insert(i, E { id: CAP as u8, val: 0 });
    kani::cover!(true, "UNSAT: insert returned normally for an out-of-range index");
    mem::forget(r);
    mem::forget(v);
}

#[kani::proof]
#[kani::unwind(10)]
#[kani::stub(core::ptr::copy, crate::stubs::copy_stub)]
#[kani::stub(core::ptr::copy_nonoverlapping, crate::stubs::copy_stub)]
#[kani::stub(core::slice::rotate::ptr_rotate, crate::boxed::no_rotate)]
fn panic_fixed_remove_oob() {
    fstate!(buf, vals, len, v);
    let i: usize = kani::any();
    kani::assume(i >= len);
    let which: bool = kani::any();
    let r = if which { v.remove(i) } else { v.swap_remove(i) };
    kani::cover!(true, "UNSAT: remove/swap_remove returned normally for an out-of-range index");
    mem::forget(r);
    mem::forget(v);
}

#[kani::proof]
#[kani::unwind(10)]
#[kani::stub(core::ptr::copy, crate::stubs::copy_stub)]
#[kani::stub(core::ptr::copy_nonoverlapping, crate::stubs::copy_stub)]
#[kani::stub(core::slice::rotate::ptr_rotate, crate::boxed::no_rotate)]
fn panic_fixed_extend_from_within_oob() {
    fstate!(buf, vals, len, v);
    let s: usize = kani::any();
    let e: usize = kani::any();
    kani::assume(s > e || e > len);
    let r = v.try_extend_from_within_clone(s..e);
    kani::cover!(true, "UNSAT: extend_from_within returned normally for an invalid range");
    mem::forget(r);
    mem::forget(v);
}

/// no-panic twins: in-range arguments never reach any panic (any reachable panic is a failed check in Kani)
#[kani::proof]
#[kani::unwind(10)]
#[kani::stub(core::ptr::copy, crate::stubs::copy_stub)]
#[kani::stub(core::ptr::copy_nonoverlapping, crate::stubs::copy_stub)]
#[kani::stub(core::slice::rotate::ptr_rotate, crate::boxed::no_rotate)]
fn nopanic_box_in_range() {
    bstate!(buf, vals, len, b);
    let i: usize = kani::any();
    let op: u8 = kani::any();
    kani::assume(op < 3);
    match op {
        0 => {
            kani::assume(i < len);
            mem::forget(b.remove(i));
        }
        1 => {
            kani::assume(i < len);
            mem::forget(b.swap_remove(i));
        }
        _ => {
            kani::assume(i <= len);
            let d = b.drain(i..len);
            mem::forget(d);
        }
    }
    mem::forget(b);
    kani::cover!(true, "END: harness ran to completion");
}
