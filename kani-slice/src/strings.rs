//! C09 — `FixedBumpString` / `BumpBox<str>`: one operation from an arbitrary valid UTF-8 state.
//!
//! State: symbolic bytes, `len <= SLEN` (4), assumed valid UTF-8 by `core::str::from_utf8` (so 1–4 byte characters
//! and their mixes are all inside), in a stack buffer of capacity `SCAP` (8).
//! Oracle: every std `String` edit is a *splice* `orig[..a] ++ ins ++ orig[b..]` at character boundaries;
//! the result bytes must equal that splice and must be valid UTF-8 (`core::str::from_utf8`).
use bump_scope::{BumpBox, FixedBumpString, FixedBumpVec};
use core::mem::{self, MaybeUninit};
use core::ptr::NonNull;

pub const SLEN: usize = 4;
pub const SCAP: usize = 8;

pub struct St {
    pub orig: [u8; SCAP],
    pub len: usize,
}

pub type SBuf = [MaybeUninit<u8>; SCAP];

pub fn any_text<const CORE: bool>() -> St {
    let b: [u8; SLEN] = kani::any();
    let len: usize = kani::any();
    kani::assume(len <= SLEN);
    let mut orig = [0u8; SCAP];
    let mut k = 0;
    while k < SLEN {
        orig[k] = b[k];
        k += 1;
    }
    kani::assume(valid::<CORE>(&orig, len));
    St { orig, len }
}

pub unsafe fn fixed_string<'a>(buf: &mut SBuf, st: &St) -> FixedBumpString<'a> {
    unsafe {
        let mut k = 0;
        while k < SCAP {
            // spare capacity is dirty on purpose
            buf[k].write(if k < st.len { st.orig[k] } else { 0xFF });
            k += 1;
        }
        let ptr = NonNull::new_unchecked(buf.as_mut_ptr());
        let boxed: BumpBox<'a, [MaybeUninit<u8>]> = BumpBox::from_raw(NonNull::slice_from_raw_parts(ptr, SCAP));
        let mut v: FixedBumpVec<'a, u8> = FixedBumpVec::from_uninit(boxed);
        v.set_len(st.len);
        FixedBumpString::from_utf8_unchecked(v)
    }
}


/// Validity oracle. `CORE = true`: `core::str::from_utf8` itself (thorough tier; its chunked ASCII fast path is
/// expensive for CBMC). `CORE = false`: a 25-line scalar validator (`model_valid`), proven equal to
/// `core::str::from_utf8(..).is_ok()` on every byte string of length <= 4 by `str_validity_model_equals_core`.
pub fn valid<const CORE: bool>(b: &[u8; SCAP], len: usize) -> bool {
    if CORE { core::str::from_utf8(&b[..len]).is_ok() } else { model_valid(b, len) }
}

pub fn valid_slice<const CORE: bool>(s: &[u8]) -> bool {
    if CORE {
        core::str::from_utf8(s).is_ok()
    } else {
        if s.len() > SCAP {
            return false;
        }
        let mut b = [0u8; SCAP];
        let mut k = 0;
        while k < SCAP {
            if k < s.len() {
                b[k] = s[k];
            }
            k += 1;
        }
        model_valid(&b, s.len())
    }
}

fn as_str<const CORE: bool>(b: &[u8; 4], n: usize) -> &str {
    if CORE { core::str::from_utf8(&b[..n]).unwrap() } else { unsafe { core::str::from_utf8_unchecked(&b[..n]) } }
}

fn cont(x: u8) -> bool {
    x & 0xC0 == 0x80
}

/// Scalar UTF-8 validator (Unicode 15 table 3-7: no overlongs, no surrogates, <= U+10FFFF).
pub fn model_valid(b: &[u8; SCAP], len: usize) -> bool {
    let mut i = 0;
    let mut k = 0;
    while k < SCAP {
        if i < len {
            let x = b[i];
            let w = if x < 0x80 {
                1
            } else if x >= 0xC2 && x <= 0xDF {
                2
            } else if x >= 0xE0 && x <= 0xEF {
                3
            } else if x >= 0xF0 && x <= 0xF4 {
                4
            } else {
                return false;
            };
            if i + w > len {
                return false;
            }
            if w >= 2 {
                let y = b[i + 1];
                let ok = match x {
                    0xE0 => y >= 0xA0 && y <= 0xBF,
                    0xED => y >= 0x80 && y <= 0x9F,
                    0xF0 => y >= 0x90 && y <= 0xBF,
                    0xF4 => y >= 0x80 && y <= 0x8F,
                    _ => cont(y),
                };
                if !ok {
                    return false;
                }
            }
            if w >= 3 && !cont(b[i + 2]) {
                return false;
            }
            if w == 4 && !cont(b[i + 3]) {
                return false;
            }
            i += w;
        }
        k += 1;
    }
    true
}

pub fn is_boundary(st: &St, i: usize) -> bool {
    i == 0 || i == st.len || (i < st.len && (st.orig[i] as i8) >= -0x40)
}

/// `res` == orig[..a] ++ ins[..ins_len] ++ orig[b..len], and is valid UTF-8
pub fn assert_splice<const CORE: bool>(res: &[u8], st: &St, a: usize, b: usize, ins: &[u8; 4], ins_len: usize) {
    let exp_len = a + ins_len + (st.len - b);
    assert!(res.len() == exp_len, "C09: length differs from the std String semantics");
    let mut k = 0;
    while k < SCAP {
        if k < exp_len {
            let want = if k < a {
                st.orig[k]
            } else if k < a + ins_len {
                ins[k - a]
            } else {
                st.orig[k - a - ins_len + b]
            };
            assert!(res[k] == want, "C09: contents differ from the std String semantics");
        }
        k += 1;
    }
    assert!(valid_slice::<CORE>(res), "C09: contents are not valid UTF-8 after the operation");
}

fn any_char() -> ([u8; 4], usize, char) {
    let ch: char = kani::any();
    let mut b = [0u8; 4];
    let n = ch.encode_utf8(&mut b).len();
    (b, n, ch)
}

/// any valid text of at most 2 bytes (as bytes + len)
fn any_small_str<const CORE: bool>() -> ([u8; 4], usize) {
    let b: [u8; 2] = kani::any();
    let n: usize = kani::any();
    kani::assume(n <= 2);
    kani::assume(valid::<CORE>(&[b[0], b[1], 0, 0, 0, 0, 0, 0], n));
    ([b[0], b[1], 0, 0], n)
}

const NO: [u8; 4] = [0; 4];

fn body_str_push<const CORE: bool>() {
    let st = any_text::<CORE>();
    let mut buf: SBuf = [const { MaybeUninit::uninit() }; SCAP];
    let mut s = unsafe { fixed_string(&mut buf, &st) };
    let (cb, cn, ch) = any_char();
    let r = s.try_push(ch);
    kani::cover!(cn == 4 && st.len == 4, "4-byte char pushed onto 4 bytes");
    kani::cover!(cn == 2, "2-byte char");
    assert!(r.is_ok(), "C09: push failed although there is room");
    assert_splice::<CORE>(s.as_bytes(), &st, st.len, st.len, &cb, cn);
    assert!(s.capacity() == SCAP, "C08: fixed string changed capacity");
    kani::cover!(true, "END: harness ran to completion");
}

fn body_str_push_str<const CORE: bool>() {
    let st = any_text::<CORE>();
    let mut buf: SBuf = [const { MaybeUninit::uninit() }; SCAP];
    let mut s = unsafe { fixed_string(&mut buf, &st) };
    let (ib, il) = any_small_str::<CORE>();
    let r = s.try_push_str(as_str::<CORE>(&ib, il));
    kani::cover!(il == 2 && ib[0] >= 0x80, "2-byte char appended");
    assert!(r.is_ok(), "C09: push_str failed although there is room");
    assert_splice::<CORE>(s.as_bytes(), &st, st.len, st.len, &ib, il);
    kani::cover!(true, "END: harness ran to completion");
}

fn body_str_insert<const CORE: bool>() {
    let st = any_text::<CORE>();
    let mut buf: SBuf = [const { MaybeUninit::uninit() }; SCAP];
    let mut s = unsafe { fixed_string(&mut buf, &st) };
    let (cb, cn, ch) = any_char();
    let idx: usize = kani::any();
    kani::assume(idx <= st.len && is_boundary(&st, idx));
    let r = s.try_insert(idx, ch);
    kani::cover!(idx > 0 && idx < st.len && cn == 3, "3-byte char inserted in the middle");
    assert!(r.is_ok(), "C09: insert failed although there is room");
    assert_splice::<CORE>(s.as_bytes(), &st, idx, idx, &cb, cn);
    kani::cover!(true, "END: harness ran to completion");
}

fn body_str_insert_str<const CORE: bool>() {
    let st = any_text::<CORE>();
    let mut buf: SBuf = [const { MaybeUninit::uninit() }; SCAP];
    let mut s = unsafe { fixed_string(&mut buf, &st) };
    let (ib, il) = any_small_str::<CORE>();
    let idx: usize = kani::any();
    kani::assume(idx <= st.len && is_boundary(&st, idx));
    let r = s.try_insert_str(idx, as_str::<CORE>(&ib, il));
    kani::cover!(idx > 0 && idx < st.len && il == 2, "2 bytes inserted in the middle");
    assert!(r.is_ok(), "C09: insert_str failed although there is room");
    assert_splice::<CORE>(s.as_bytes(), &st, idx, idx, &ib, il);
    kani::cover!(true, "END: harness ran to completion");
}

fn width_at(st: &St, i: usize) -> usize {
    let b = st.orig[i];
    if b < 0x80 {
        1
    } else if b < 0xE0 {
        2
    } else if b < 0xF0 {
        3
    } else {
        4
    }
}

fn body_str_remove<const CORE: bool>() {
    let st = any_text::<CORE>();
    let mut buf: SBuf = [const { MaybeUninit::uninit() }; SCAP];
    let mut s = unsafe { fixed_string(&mut buf, &st) };
    let idx: usize = kani::any();
    kani::assume(idx < st.len && is_boundary(&st, idx));
    let ch = s.remove(idx);
    let w = width_at(&st, idx);
    kani::cover!(w == 2 && idx > 0 && idx + w < st.len, "2-byte char removed from the middle");
    kani::cover!(w == 4, "4-byte char removed");
    // the returned char is the one that was stored there
    let mut eb = [0u8; 4];
    let en = ch.encode_utf8(&mut eb).len();
    assert!(en == w, "C09: remove returned a char of the wrong width");
    let mut k = 0;
    while k < 4 {
        if k < w {
            assert!(eb[k] == st.orig[idx + k], "C09: remove returned the wrong char");
        }
        k += 1;
    }
    assert_splice::<CORE>(s.as_bytes(), &st, idx, idx + w, &NO, 0);
    kani::cover!(true, "END: harness ran to completion");
}

fn body_str_pop_truncate_clear<const CORE: bool>() {
    let st = any_text::<CORE>();
    let mut buf: SBuf = [const { MaybeUninit::uninit() }; SCAP];
    let mut s = unsafe { fixed_string(&mut buf, &st) };
    let op: u8 = kani::any();
    kani::assume(op < 3);
    match op {
        0 => {
            let r = s.pop();
            match r {
                None => {
                    assert!(st.len == 0, "C09: pop returned None on a non-empty string");
                    assert_splice::<CORE>(s.as_bytes(), &st, 0, 0, &NO, 0);
                }
                Some(ch) => {
                    let w = ch.len_utf8();
                    assert!(w <= st.len && is_boundary(&st, st.len - w) && width_at(&st, st.len - w) == w, "C09: pop removed a partial char");
                    let mut eb = [0u8; 4];
                    ch.encode_utf8(&mut eb);
                    let mut k = 0;
                    while k < 4 {
                        if k < w {
                            assert!(eb[k] == st.orig[st.len - w + k], "C09: pop returned the wrong char");
                        }
                        k += 1;
                    }
                    kani::cover!(w == 3, "3-byte char popped");
                    assert_splice::<CORE>(s.as_bytes(), &st, st.len - w, st.len, &NO, 0);
                }
            }
        }
        1 => {
            let n: usize = kani::any();
            kani::assume(n > st.len || is_boundary(&st, n));
            s.truncate(n);
            kani::cover!(n > 0 && n < st.len, "truncate in the middle");
            kani::cover!(n > st.len, "truncate beyond the end: no effect");
            let a = if n < st.len { n } else { st.len };
            assert_splice::<CORE>(s.as_bytes(), &st, a, st.len, &NO, 0);
        }
        _ => {
            s.clear();
            assert_splice::<CORE>(s.as_bytes(), &st, 0, st.len, &NO, 0);
        }
    }
    kani::cover!(true, "END: harness ran to completion");
}

/// retain under every predicate over character positions
fn body_str_retain<const CORE: bool>() {
    let st = any_text::<CORE>();
    let mut buf: SBuf = [const { MaybeUninit::uninit() }; SCAP];
    let mut s = unsafe { fixed_string(&mut buf, &st) };
    let mask: u8 = kani::any();
    let mut n: u8 = 0;
    s.retain(|_ch| {
        let keep = (mask >> n) & 1 == 1;
        n += 1;
        keep
    });
    // reference: walk characters, keep the ones selected
    let mut exp = [0u8; SCAP];
    let mut el = 0;
    let mut i = 0;
    let mut ci = 0;
    let mut k = 0;
    while k < SLEN {
        if i < st.len {
            let w = width_at(&st, i);
            if (mask >> ci) & 1 == 1 {
                let mut j = 0;
                while j < 4 {
                    if j < w {
                        exp[el + j] = st.orig[i + j];
                    }
                    j += 1;
                }
                el += w;
            }
            i += w;
            ci += 1;
        }
        k += 1;
    }
    assert!(n == ci, "C09: retain did not visit every char exactly once");
    kani::cover!(ci == 3 && el > 0 && el < st.len, "some of three chars kept");
    let res = s.as_bytes();
    assert!(res.len() == el, "C09: retain length differs");
    k = 0;
    while k < SCAP {
        if k < el {
            assert!(res[k] == exp[k], "C09: retain contents differ");
        }
        k += 1;
    }
    assert!(valid_slice::<CORE>(res), "C09: not valid UTF-8 after retain");
    kani::cover!(true, "END: harness ran to completion");
}

fn body_str_drain_split_off<const CORE: bool>() {
    let st = any_text::<CORE>();
    let mut buf: SBuf = [const { MaybeUninit::uninit() }; SCAP];
    let mut s = unsafe { fixed_string(&mut buf, &st) };
    let a: usize = kani::any();
    let b: usize = kani::any();
    kani::assume(a <= b && b <= st.len && is_boundary(&st, a) && is_boundary(&st, b));
    let split: bool = kani::any();
    if split {
        // prefix / suffix / empty / full ranges (interior ones rotate bytes; see `str_split_off_interior`)
        kani::assume(a == 0 || b == st.len || a == b);
        let off = s.split_off(a..b);
        // returned part = orig[a..b]
        let ob = off.as_bytes();
        assert!(ob.len() == b - a, "C16: split_off part has the wrong length");
        let mut k = 0;
        while k < SLEN {
            if k < b - a {
                assert!(ob[k] == st.orig[a + k], "C16: split_off part has the wrong contents");
            }
            k += 1;
        }
        assert!(valid_slice::<CORE>(ob), "C09: split-off part is not valid UTF-8");
        kani::cover!(a > 0 && b == st.len && a < b, "proper suffix split off");
        assert_splice::<CORE>(s.as_bytes(), &st, a, b, &NO, 0);
        assert!(off.capacity() + s.capacity() == SCAP, "C16: string capacities do not add up");
    } else {
        {
            let mut d = s.drain(a..b);
            let first = d.next();
            if a < b {
                assert!(first.is_some(), "C09: drain yielded nothing for a non-empty range");
            } else {
                assert!(first.is_none(), "C09: drain yielded a char for an empty range");
            }
        }
        kani::cover!(a > 0 && b < st.len && a < b, "interior range drained");
        assert_splice::<CORE>(s.as_bytes(), &st, a, b, &NO, 0);
    }
    kani::cover!(true, "END: harness ran to completion");
}

fn body_str_replace_range<const CORE: bool>() {
    let st = any_text::<CORE>();
    let mut buf: SBuf = [const { MaybeUninit::uninit() }; SCAP];
    let mut s = unsafe { fixed_string(&mut buf, &st) };
    let (ib, il) = any_small_str::<CORE>();
    let a: usize = kani::any();
    let b: usize = kani::any();
    kani::assume(a <= b && b <= st.len && is_boundary(&st, a) && is_boundary(&st, b));
    let r = s.try_replace_range(a..b, as_str::<CORE>(&ib, il));
    kani::cover!(b - a == 1 && il == 2 && b < st.len, "grows, tail moved");
    kani::cover!(b - a == 3 && il == 1 && b < st.len, "shrinks, tail moved");
    assert!(r.is_ok(), "C09: replace_range failed although there is room");
    assert_splice::<CORE>(s.as_bytes(), &st, a, b, &ib, il);
    kani::cover!(true, "END: harness ran to completion");
}

fn body_str_extend_from_within<const CORE: bool>() {
    let st = any_text::<CORE>();
    let mut buf: SBuf = [const { MaybeUninit::uninit() }; SCAP];
    let mut s = unsafe { fixed_string(&mut buf, &st) };
    let a: usize = kani::any();
    let b: usize = kani::any();
    kani::assume(a <= b && b <= st.len && is_boundary(&st, a) && is_boundary(&st, b));
    let r = s.try_extend_from_within(a..b);
    assert!(r.is_ok(), "C09: extend_from_within failed although there is room");
    let mut ins = [0u8; 4];
    let mut k = 0;
    while k < 4 {
        if k < b - a {
            ins[k] = st.orig[a + k];
        }
        k += 1;
    }
    kani::cover!(b - a == 3 && a == 1, "three bytes copied from the middle");
    assert_splice::<CORE>(s.as_bytes(), &st, st.len, st.len, &ins, b - a);
    kani::cover!(true, "END: harness ran to completion");
}

/// a full fixed string refuses to grow and stays unchanged (C07/C08)
fn body_str_full_refuses<const CORE: bool>() {
    let st = any_text::<CORE>();
    kani::assume(st.len == SLEN);
    let mut small: [MaybeUninit<u8>; SLEN] = [const { MaybeUninit::uninit() }; SLEN];
    let mut s = unsafe {
        let mut k = 0;
        while k < SLEN {
            small[k].write(st.orig[k]);
            k += 1;
        }
        let boxed: BumpBox<[MaybeUninit<u8>]> = BumpBox::from_raw(NonNull::slice_from_raw_parts(NonNull::new_unchecked(small.as_mut_ptr()), SLEN));
        let mut v: FixedBumpVec<u8> = FixedBumpVec::from_uninit(boxed);
        v.set_len(SLEN);
        FixedBumpString::from_utf8_unchecked(v)
    };
    let (_, _, ch) = any_char();
    let op: u8 = kani::any();
    kani::assume(op < 3);
    let r = match op {
        0 => s.try_push(ch),
        1 => s.try_insert(0, ch),
        _ => s.try_push_str("x"),
    };
    assert!(r.is_err(), "C08: a full fixed string accepted more text");
    assert_splice::<CORE>(s.as_bytes(), &st, 0, 0, &NO, 0);
    kani::cover!(true, "END: harness ran to completion");
}

/// decoders: from_utf8 on ARBITRARY bytes agrees with core (Ok/Err and valid_up_to)
#[kani::proof]
#[kani::unwind(10)]
#[kani::stub(core::ptr::copy, crate::stubs::copy_stub)]
#[kani::stub(core::ptr::copy_nonoverlapping, crate::stubs::copy_stub)]
#[kani::stub(core::slice::rotate::ptr_rotate, crate::boxed::no_rotate)]
fn str_from_utf8_arbitrary() {
    let b: [u8; SLEN] = kani::any();
    let len: usize = kani::any();
    kani::assume(len <= SLEN);
    let mut buf: SBuf = [const { MaybeUninit::uninit() }; SCAP];
    let v: FixedBumpVec<u8> = unsafe {
        let mut k = 0;
        while k < SLEN {
            buf[k].write(b[k]);
            k += 1;
        }
        let boxed: BumpBox<[MaybeUninit<u8>]> = BumpBox::from_raw(NonNull::slice_from_raw_parts(NonNull::new_unchecked(buf.as_mut_ptr()), SCAP));
        let mut v = FixedBumpVec::from_uninit(boxed);
        v.set_len(len);
        v
    };
    let want = core::str::from_utf8(&b[..len]);
    let got = FixedBumpString::from_utf8(v);
    kani::cover!(want.is_ok() && len == 4 && b[0] >= 0xF0, "valid 4-byte char");
    kani::cover!(want.is_err() && len == 4, "invalid 4 bytes");
    match (&want, &got) {
        (Ok(_), Ok(s)) => {
            assert!(s.len() == len, "C09: from_utf8 changed the length");
        }
        (Err(e), Err(ge)) => {
            assert!(ge.utf8_error().valid_up_to() == e.valid_up_to(), "C09: from_utf8 reports a different valid_up_to than core");
            assert!(ge.utf8_error().error_len() == e.error_len(), "C09: from_utf8 reports a different error_len than core");
        }
        _ => panic!("C09: from_utf8 disagrees with core::str::from_utf8 on validity"),
    }
    kani::cover!(true, "END: harness ran to completion");
}

// ---- must-panic: index not on a char boundary or out of range ---------------------------------

fn body_panic_str_bad_index<const CORE: bool>() {
    let st = any_text::<CORE>();
    let mut buf: SBuf = [const { MaybeUninit::uninit() }; SCAP];
    let mut s = unsafe { fixed_string(&mut buf, &st) };
    let idx: usize = kani::any();
    let op: u8 = kani::any();
    kani::assume(op < 5);
    kani::cover!(idx < st.len && !is_boundary(&st, idx), "REACH: index inside a multi-byte char");
    kani::cover!(idx > st.len, "REACH: index beyond the end");
    match op {
        0 => {
            // insert: idx must be a boundary <= len
            kani::assume(idx > st.len || !is_boundary(&st, idx));
            let _ = s.try_insert(idx, 'a');
        }
        1 => {
            kani::assume(idx > st.len || !is_boundary(&st, idx));
            let _ = s.try_insert_str(idx, "a");
        }
        2 => {
            // remove: idx must be a boundary < len
            kani::assume(idx >= st.len || !is_boundary(&st, idx));
            let _ = s.remove(idx);
        }
        3 => {
            // truncate: only in-range non-boundaries panic
            kani::assume(idx <= st.len && !is_boundary(&st, idx));
            s.truncate(idx);
        }
        _ => {
            kani::assume(idx > st.len || !is_boundary(&st, idx));
            let _ = s.try_replace_range(idx.., "a");
        }
    }
    kani::cover!(true, "UNSAT: a string edit returned normally for an index that is out of range or not a char boundary");
    mem::forget(s);
}

/// `FixedBumpString::split_off` / `BumpBox<str>::split_off` of every INTERIOR non-empty range for len <= 6 (20 concrete
/// shapes, so that std's rotate runs on constant lengths; the 6 bytes are symbolic ASCII). Lengths 5 and 6 matter: for
/// len <= 4 every interior range has head_len == range_len or tail_len == range_len, where the possible rotation
/// mix-ups coincide (third-round seeded change: rotate_right(head_len) instead of rotate_right(range_len)).
/// Oracle: the split-off part is orig[s..e], the rest is orig[..s] ++ orig[e..], both valid UTF-8 (ASCII), capacities add up.
fn body_str_split_off_interior<const BOXED: bool>() {
    let b: [u8; 6] = kani::any();
    kani::assume(b[0] < 0x80 && b[1] < 0x80 && b[2] < 0x80 && b[3] < 0x80 && b[4] < 0x80 && b[5] < 0x80);
    let shape: u8 = kani::any();
    kani::assume(shape < 20);
    let mut buf: [MaybeUninit<u8>; 6] = [const { MaybeUninit::uninit() }; 6];
    macro_rules! arm {
        ($len:literal, $s:literal, $e:literal) => {{
            unsafe {
                core::ptr::copy_nonoverlapping(b.as_ptr(), buf.as_mut_ptr() as *mut u8, 6);
                let ptr = NonNull::new_unchecked(buf.as_mut_ptr());
                let boxed: BumpBox<'_, [MaybeUninit<u8>]> = BumpBox::from_raw(NonNull::slice_from_raw_parts(ptr, 6));
                let mut v: FixedBumpVec<'_, u8> = FixedBumpVec::from_uninit(boxed);
                v.set_len($len);
                let mut s = FixedBumpString::from_utf8_unchecked(v);
                let exp_off: [u8; $e - $s] = core::array::from_fn(|k| b[$s + k]);
                let exp_rest: [u8; $len - ($e - $s)] = core::array::from_fn(|k| if k < $s { b[k] } else { b[k + ($e - $s)] });
                if BOXED {
                    let mut bx = s.into_boxed_str();
                    let off = bx.split_off($s..$e);
                    assert!(off.as_bytes() == &exp_off[..], "C09/C16: BumpBox<str>::split_off part differs from the text of the range");
                    assert!(bx.as_bytes() == &exp_rest[..], "C09/C16: BumpBox<str>::split_off left the wrong remainder");
                    mem::forget(off);
                    mem::forget(bx);
                } else {
                    let off = s.split_off($s..$e);
                    assert!(off.as_bytes() == &exp_off[..], "C09/C16: FixedBumpString::split_off part differs from the text of the range");
                    assert!(s.as_bytes() == &exp_rest[..], "C09/C16: FixedBumpString::split_off left the wrong remainder");
                    assert!(off.capacity() + s.capacity() == 6 && off.capacity() >= off.len() && s.capacity() >= s.len(), "C16: string capacities do not add up after an interior split_off");
                    mem::forget(off);
                    mem::forget(s);
                }
            }
        }};
    }
    kani::cover!(shape == 4, "len 5, 1..3: nearer the front, head_len != range_len");
    kani::cover!(shape == 8, "len 5, 2..4: nearer the back, tail_len != range_len");
    match shape {
        0 => arm!(3, 1, 2),
        1 => arm!(4, 1, 2),
        2 => arm!(4, 1, 3),
        3 => arm!(4, 2, 3),
        4 => arm!(5, 1, 3),
        5 => arm!(5, 1, 2),
        6 => arm!(5, 1, 4),
        7 => arm!(5, 2, 3),
        8 => arm!(5, 2, 4),
        9 => arm!(5, 3, 4),
        10 => arm!(6, 1, 2),
        11 => arm!(6, 1, 3),
        12 => arm!(6, 1, 4),
        13 => arm!(6, 1, 5),
        14 => arm!(6, 2, 3),
        15 => arm!(6, 2, 4),
        16 => arm!(6, 2, 5),
        17 => arm!(6, 3, 4),
        18 => arm!(6, 3, 5),
        _ => arm!(6, 4, 5),
    }
    kani::cover!(true, "END: harness ran to completion");
}

// the REAL std rotate runs here (no ptr_rotate stub): lengths are constants per arm
#[kani::proof]
#[kani::unwind(10)]
#[kani::stub(core::ptr::copy, crate::stubs::copy_stub)]
#[kani::stub(core::ptr::copy_nonoverlapping, crate::stubs::copy_stub)]
fn str_split_off_interior() {
    body_str_split_off_interior::<false>();
}

#[kani::proof]
#[kani::unwind(10)]
#[kani::stub(core::ptr::copy, crate::stubs::copy_stub)]
#[kani::stub(core::ptr::copy_nonoverlapping, crate::stubs::copy_stub)]
fn boxstr_split_off_interior() {
    body_str_split_off_interior::<true>();
}

/// split_off / drain with a range whose start or end is out of bounds, reversed, or NOT on a char boundary - including
/// EMPTY ranges inside a multi-byte character - must panic on every path (documented: "Panics if the starting point or
/// end point do not lie on a char boundary, or if they're out of bounds"; std's `drain` / `split_off` do). The checks
/// placed after the calls are unreachable when the method panics; they fail (and replay natively) when it returns.
/// (named `mustfail_*`: the expected-failure pattern of the must-panic harnesses matches function names with "panic")
fn body_str_range_must_reject<const CORE: bool>() {
    let st = any_text::<CORE>();
    let mut buf: SBuf = [const { MaybeUninit::uninit() }; SCAP];
    let mut s = unsafe { fixed_string(&mut buf, &st) };
    let a: usize = kani::any();
    let b: usize = kani::any();
    kani::assume(a > b || b > st.len || !is_boundary(&st, a) || !is_boundary(&st, b));
    let op: u8 = kani::any();
    kani::assume(op < 3);
    kani::cover!(a == b && a < st.len, "REACH: empty range inside a multi-byte char");
    kani::cover!(a < b && b <= st.len && is_boundary(&st, a), "REACH: only the end is inside a char");
    kani::cover!(b > st.len, "REACH: end beyond the length");
    match op {
        0 => {
            let off = s.split_off(a..b);
            mem::forget(off);
            kani::cover!(true, "C09: FixedBumpString::split_off returned normally for a range that is out of bounds or not on char boundaries");
            assert!(false, "C09: FixedBumpString::split_off returned normally for a range that is out of bounds or not on char boundaries");
        }
        1 => {
            let mut bx = s.into_boxed_str();
            let off = bx.split_off(a..b);
            mem::forget(off);
            mem::forget(bx);
            kani::cover!(true, "C09: BumpBox<str>::split_off returned normally for a range that is out of bounds or not on char boundaries");
            assert!(false, "C09: BumpBox<str>::split_off returned normally for a range that is out of bounds or not on char boundaries");
        }
        _ => {
            let d = s.drain(a..b);
            mem::forget(d);
            kani::cover!(true, "C09: drain returned normally for a range that is out of bounds or not on char boundaries");
            assert!(false, "C09: drain returned normally for a range that is out of bounds or not on char boundaries");
        }
    }
}

#[kani::proof]
#[kani::unwind(10)]
#[kani::stub(core::ptr::copy, crate::stubs::copy_stub)]
#[kani::stub(core::ptr::copy_nonoverlapping, crate::stubs::copy_stub)]
#[kani::stub(core::slice::rotate::ptr_rotate, crate::boxed::no_rotate)]
fn mustfail_str_range() {
    body_str_range_must_reject::<false>();
}

macro_rules! two {
    ($($q:ident, $t:ident, $body:ident;)*) => {$(
        #[kani::proof]
        #[kani::unwind(10)]
        #[kani::stub(core::ptr::copy, crate::stubs::copy_stub)]
        #[kani::stub(core::ptr::copy_nonoverlapping, crate::stubs::copy_stub)]
        #[kani::stub(core::slice::rotate::ptr_rotate, crate::boxed::no_rotate)]
        fn $q() {
            $body::<false>();
        }
        #[kani::proof]
        #[kani::unwind(10)]
        #[kani::stub(core::ptr::copy, crate::stubs::copy_stub)]
        #[kani::stub(core::ptr::copy_nonoverlapping, crate::stubs::copy_stub)]
        #[kani::stub(core::slice::rotate::ptr_rotate, crate::boxed::no_rotate)]
        fn $t() {
            $body::<true>();
        }
    )*};
}

two! {
    str_push, str_push_core, body_str_push;
    str_push_str, str_push_str_core, body_str_push_str;
    str_insert, str_insert_core, body_str_insert;
    str_insert_str, str_insert_str_core, body_str_insert_str;
    str_remove, str_remove_core, body_str_remove;
    str_pop_truncate_clear, str_pop_truncate_clear_core, body_str_pop_truncate_clear;
    str_retain, str_retain_core, body_str_retain;
    str_drain_split_off, str_drain_split_off_core, body_str_drain_split_off;
    str_replace_range, str_replace_range_core, body_str_replace_range;
    str_extend_from_within, str_extend_from_within_core, body_str_extend_from_within;
    str_full_refuses, str_full_refuses_core, body_str_full_refuses;
    panic_str_bad_index, panic_str_bad_index_core, body_panic_str_bad_index;
}

/// the scalar validator used by the quick tier equals core's verdict on EVERY byte string of length <= 4
#[kani::proof]
#[kani::unwind(10)]
#[kani::stub(core::ptr::copy, crate::stubs::copy_stub)]
#[kani::stub(core::ptr::copy_nonoverlapping, crate::stubs::copy_stub)]
#[kani::stub(core::slice::rotate::ptr_rotate, crate::boxed::no_rotate)]
fn str_validity_model_equals_core() {
    let b: [u8; SLEN] = kani::any();
    let len: usize = kani::any();
    kani::assume(len <= SLEN);
    let wide = [b[0], b[1], b[2], b[3], 0, 0, 0, 0];
    let m = model_valid(&wide, len);
    let c = core::str::from_utf8(&b[..len]).is_ok();
    kani::cover!(m && len == 4 && b[0] == 0xF4, "valid plane-16 char");
    kani::cover!(!m && len == 3 && b[0] == 0xED, "surrogate rejected");
    assert!(m == c, "C09 harness: scalar UTF-8 validator disagrees with core::str::from_utf8");
    kani::cover!(true, "END: harness ran to completion");
}
