//! `BumpBox<[T]>` — the slice-level algorithms that every vector type reuses.
//! One operation from an arbitrary valid state (len <= CAP), sized elements with drop accounting.
use crate::common::*;
use bump_scope::BumpBox;
use core::mem::{self, MaybeUninit};
use core::ptr::NonNull;

macro_rules! state {
    ($buf:ident, $vals:ident, $len:ident, $b:ident, $m:ident) => {
        let $vals = any_vals();
        let $len = any_len();
        let mut $buf = new_buf();
        #[allow(unused_mut)]
        let mut $b = unsafe { boxed(&mut $buf, $len, &$vals) };
        #[allow(unused_mut)]
        let mut $m = Model::initial($len);
    };
}

const UNW: u32 = 10;

#[kani::proof]
#[kani::unwind(10)]
#[kani::stub(core::ptr::copy, crate::stubs::copy_stub)]
#[kani::stub(core::ptr::copy_nonoverlapping, crate::stubs::copy_stub)]
fn box_pop() {
    state!(buf, vals, len, b, m);
    let r = b.pop();
    kani::cover!(r.is_some(), "popped a value");
    kani::cover!(r.is_none(), "empty");
    match &r {
        None => assert!(len == 0, "C08: pop returned None on a non-empty slice"),
        Some(e) => {
            assert!(len > 0 && e.id as usize == len - 1 && e.val == vals[len - 1], "C08: pop returned the wrong value");
            m.len -= 1;
        }
    }
    assert_is(&b, &m, &vals);
    drop(r);
    drop(b);
    assert_dropped_once(len);
    kani::cover!(true, "END: harness ran to completion");
}

#[kani::proof]
#[kani::unwind(10)]
#[kani::stub(core::ptr::copy, crate::stubs::copy_stub)]
#[kani::stub(core::ptr::copy_nonoverlapping, crate::stubs::copy_stub)]
fn box_clear() {
    state!(buf, vals, len, b, m);
    b.clear();
    assert!(b.len() == 0, "C08: clear left elements");
    assert_dropped_once(len);
    drop(b);
    assert_dropped_once(len);
    kani::cover!(true, "END: harness ran to completion");
}

#[kani::proof]
#[kani::unwind(10)]
#[kani::stub(core::ptr::copy, crate::stubs::copy_stub)]
#[kani::stub(core::ptr::copy_nonoverlapping, crate::stubs::copy_stub)]
fn box_truncate() {
    state!(buf, vals, len, b, m);
    let n: usize = kani::any();
    b.truncate(n);
    kani::cover!(n < len, "really truncates");
    kani::cover!(n > len, "no effect");
    m.len = if n < len { n } else { len };
    assert_is(&b, &m, &vals);
    // the cut-off elements are already dropped, the kept ones are not
    let mut k = 0;
    while k < CAP {
        if k < len {
            assert!(drops(k) == if k < m.len { 0 } else { 1 }, "C06: truncate dropped the wrong elements");
        }
        k += 1;
    }
    drop(b);
    assert_dropped_once(len);
    kani::cover!(true, "END: harness ran to completion");
}

#[kani::proof]
#[kani::unwind(10)]
#[kani::stub(core::ptr::copy, crate::stubs::copy_stub)]
#[kani::stub(core::ptr::copy_nonoverlapping, crate::stubs::copy_stub)]
fn box_remove() {
    state!(buf, vals, len, b, m);
    let i: usize = kani::any();
    kani::assume(i < len);
    let r = b.remove(i);
    let rid = m.remove(i);
    kani::cover!(i == 0 && len == CAP, "remove first of a full slice");
    kani::cover!(i + 1 == len, "remove last");
    assert!(r.id == rid && r.val == vals[rid as usize], "C08: remove returned the wrong value");
    assert_is(&b, &m, &vals);
    assert_not_dropped(rid as usize);
    drop(r);
    drop(b);
    assert_dropped_once(len);
    kani::cover!(true, "END: harness ran to completion");
}

#[kani::proof]
#[kani::unwind(10)]
#[kani::stub(core::ptr::copy, crate::stubs::copy_stub)]
#[kani::stub(core::ptr::copy_nonoverlapping, crate::stubs::copy_stub)]
fn box_swap_remove() {
    state!(buf, vals, len, b, m);
    let i: usize = kani::any();
    kani::assume(i < len);
    let r = b.swap_remove(i);
    let rid = m.swap_remove(i);
    kani::cover!(i == 0 && len == CAP, "swap_remove first of a full slice");
    kani::cover!(i + 1 == len, "swap_remove last");
    assert!(r.id == rid && r.val == vals[rid as usize], "C08: swap_remove returned the wrong value");
    assert_is(&b, &m, &vals);
    drop(r);
    drop(b);
    assert_dropped_once(len);
    kani::cover!(true, "END: harness ran to completion");
}

/// C16: split_off(start..end) for every prefix / suffix / empty / full range of every state (symbolic start, end).
/// std's `ptr_rotate` (nested loops over symbolic lengths: exhausts memory) is stubbed by a failing assertion, which
/// also decides the documented "O(1) if the range starts at 0, ends at len, or is empty". Interior non-empty ranges,
/// which do rotate, are covered by `box_split_off_interior`.
#[kani::proof]
#[kani::unwind(10)]
#[kani::stub(core::ptr::copy, crate::stubs::copy_stub)]
#[kani::stub(core::ptr::copy_nonoverlapping, crate::stubs::copy_stub)]
#[kani::stub(core::slice::rotate::ptr_rotate, no_rotate)]
fn box_split_off() {
    state!(buf, vals, len, b, m);
    let start: usize = kani::any();
    let end: usize = kani::any();
    kani::assume(start <= end && end <= len);
    kani::assume(start == 0 || end == len || start == end);
    let addr0 = b.as_ptr() as usize;
    let off = b.split_off(start..end);
    kani::cover!(start == 0 && end == len && len == CAP, "full range");
    kani::cover!(start == end && start > 0 && end < len, "empty interior range");
    kani::cover!(start == 0 && end > 0 && end < len, "proper prefix");
    kani::cover!(start > 0 && end == len && start < end, "proper suffix");
    split_off_check(&vals, len, addr0, b, off, start, end);
    kani::cover!(true, "END: harness ran to completion");
}

/// every interior non-empty range of every length <= 6 (20 shapes; the state is built per arm so that the slice length
/// is a constant when std's `rotate_*` is symbolically executed; payloads stay symbolic). Lengths 5 and 6 matter: for
/// len <= 4 every interior range has head_len == range_len or tail_len == range_len, where rotate_left and
/// rotate_right coincide.
#[kani::proof]
#[kani::unwind(10)]
#[kani::stub(core::ptr::copy, crate::stubs::copy_stub)]
#[kani::stub(core::ptr::copy_nonoverlapping, crate::stubs::copy_stub)]
fn box_split_off_interior() {
    let vals = any_vals();
    let mut buf = new_buf6();
    let shape: u8 = kani::any();
    kani::assume(shape < 20);
    macro_rules! arm {
        ($len:literal, $s:literal, $e:literal) => {{
            let mut b = unsafe { boxed6(&mut buf, $len, &vals) };
            let addr0 = b.as_ptr() as usize;
            let off = b.split_off($s..$e);
            split_off_check(&vals, $len, addr0, b, off, $s, $e);
        }};
    }
    kani::cover!(shape == 4, "len 5, 1..3: nearer the front, head_len != range_len (rotate_right)");
    kani::cover!(shape == 8, "len 5, 2..4: nearer the back, tail_len != range_len (rotate_left)");
    match shape {
        0 => arm!(3, 1, 2),
        1 => arm!(4, 1, 2),
        2 => arm!(4, 1, 3),
        3 => arm!(4, 2, 3),
        4 => arm!(5, 1, 3),
        5 => arm!(5, 1, 2),
        6 => arm!(5, 1, 4),
        7 => arm!(5, 2, 3),
        8 => arm!(5, 2, 4),
        9 => arm!(5, 3, 4),
        10 => arm!(6, 1, 2),
        11 => arm!(6, 1, 3),
        12 => arm!(6, 1, 4),
        13 => arm!(6, 1, 5),
        14 => arm!(6, 2, 3),
        15 => arm!(6, 2, 4),
        16 => arm!(6, 2, 5),
        17 => arm!(6, 3, 4),
        18 => arm!(6, 3, 5),
        _ => arm!(6, 4, 5),
    }
    kani::cover!(true, "END: harness ran to completion");
}

#[inline(always)]
fn split_off_check(vals: &[u8; NIDS], len: usize, addr0: usize, b: BumpBox<[E]>, off: BumpBox<[E]>, start: usize, end: usize) {
    let vals = *vals;
    // reference: off = [start, end), rest = [0,start) ++ [end,len)
    let mut mo = Model::empty();
    let mut mr = Model::empty();
    let mut k = 0;
    while k < 2 * CAP {
        if k < len {
            if k >= start && k < end {
                mo.push(k as u8);
            } else {
                mr.push(k as u8);
            }
        }
        k += 1;
    }
    assert_is(&off, &mo, &vals);
    assert_is(&b, &mr, &vals);
    // the two parts are disjoint sub-ranges of the original block (sized elements)
    let (a1, n1) = (off.as_ptr() as usize, off.len());
    let (a2, n2) = (b.as_ptr() as usize, b.len());
    let sz = mem::size_of::<E>();
    if n1 > 0 && n2 > 0 {
        assert!(a1 + n1 * sz <= a2 || a2 + n2 * sz <= a1, "C16: split parts overlap");
    }
    if n1 > 0 {
        assert!(a1 >= addr0 && a1 + n1 * sz <= addr0 + len * sz, "C16: split-off part outside the original block");
    }
    if n2 > 0 {
        assert!(a2 >= addr0 && a2 + n2 * sz <= addr0 + len * sz, "C16: remaining part outside the original block");
    }
    // independence: dropping one part leaves the other intact
    let first: bool = kani::any();
    if first {
        drop(off);
        assert_is(&b, &mr, &vals);
        drop(b);
    } else {
        drop(b);
        assert_is(&off, &mo, &vals);
        drop(off);
    }
    assert_dropped_once(len);
}

#[kani::proof]
#[kani::unwind(10)]
#[kani::stub(core::ptr::copy, crate::stubs::copy_stub)]
#[kani::stub(core::ptr::copy_nonoverlapping, crate::stubs::copy_stub)]
fn box_split_at_merge() {
    state!(buf, vals, len, b, m);
    let at: usize = kani::any();
    kani::assume(at <= len);
    let (l, r) = b.split_at(at);
    kani::cover!(at > 0 && at < len, "interior split point");
    let mut ml = Model::initial(at);
    let mut mr = Model::empty();
    let mut k = 0;
    while k < CAP {
        if k >= at && k < len {
            mr.push(k as u8);
        }
        k += 1;
    }
    assert_is(&l, &ml, &vals);
    assert_is(&r, &mr, &vals);
    // merge of adjacent parts restores the whole
    let whole = l.merge(r);
    assert_is(&whole, &m, &vals);
    drop(whole);
    assert_dropped_once(len);
    kani::cover!(true, "END: harness ran to completion");
}

#[kani::proof]
#[kani::unwind(10)]
#[kani::stub(core::ptr::copy, crate::stubs::copy_stub)]
#[kani::stub(core::ptr::copy_nonoverlapping, crate::stubs::copy_stub)]
fn box_split_first_last() {
    state!(buf, vals, len, b, m);
    let which: bool = kani::any();
    if which {
        match b.split_first() {
            None => assert!(len == 0, "C16: split_first returned None on a non-empty slice"),
            Some((f, rest)) => {
                assert!(len > 0 && f.id == 0 && f.val == vals[0], "C16: split_first returned the wrong element");
                m.remove(0);
                assert_is(&rest, &m, &vals);
                kani::cover!(rest.len() == CAP - 1, "split_first of a full slice");
                drop(rest);
                assert_not_dropped(0);
                drop(f);
            }
        }
    } else {
        match b.split_last() {
            None => assert!(len == 0, "C16: split_last returned None on a non-empty slice"),
            Some((l, rest)) => {
                assert!(len > 0 && l.id as usize == len - 1 && l.val == vals[len - 1], "C16: split_last returned the wrong element");
                m.len -= 1;
                assert_is(&rest, &m, &vals);
                kani::cover!(rest.len() == CAP - 1, "split_last of a full slice");
                drop(l);
                assert_is(&rest, &m, &vals);
                drop(rest);
            }
        }
    }
    assert_dropped_once(len);
    kani::cover!(true, "END: harness ran to completion");
}

#[kani::proof]
#[kani::unwind(10)]
#[kani::stub(core::ptr::copy, crate::stubs::copy_stub)]
#[kani::stub(core::ptr::copy_nonoverlapping, crate::stubs::copy_stub)]
fn box_split_off_first_last() {
    state!(buf, vals, len, b, m);
    let which: bool = kani::any();
    if which {
        let f = b.split_off_first();
        match &f {
            None => assert!(len == 0, "C16: split_off_first returned None on a non-empty slice"),
            Some(f) => {
                assert!(len > 0 && f.id == 0 && f.val == vals[0], "C16: split_off_first returned the wrong element");
                m.remove(0);
            }
        }
        assert_is(&b, &m, &vals);
        drop(f);
    } else {
        let l = b.split_off_last();
        match &l {
            None => assert!(len == 0, "C16: split_off_last returned None on a non-empty slice"),
            Some(l) => {
                assert!(len > 0 && l.id as usize == len - 1, "C16: split_off_last returned the wrong element");
                m.len -= 1;
            }
        }
        assert_is(&b, &m, &vals);
        drop(l);
    }
    drop(b);
    assert_dropped_once(len);
    kani::cover!(true, "END: harness ran to completion");
}

/// retain under every predicate (a symbolic bit mask over ids)
#[kani::proof]
#[kani::unwind(10)]
#[kani::stub(core::ptr::copy, crate::stubs::copy_stub)]
#[kani::stub(core::ptr::copy_nonoverlapping, crate::stubs::copy_stub)]
fn box_retain() {
    state!(buf, vals, len, b, m);
    let mask: u8 = kani::any();
    let mut calls: u8 = 0;
    b.retain(|e| {
        calls += 1;
        (mask >> e.id) & 1 == 1
    });
    assert!(calls as usize == len, "C08: retain did not visit every element exactly once");
    let mut mk = Model::empty();
    let mut k = 0;
    while k < CAP {
        if k < len && (mask >> k) & 1 == 1 {
            mk.push(k as u8);
        }
        k += 1;
    }
    kani::cover!(len == CAP && mk.len == 2, "two of four kept");
    assert_is(&b, &mk, &vals);
    // removed ones are dropped already, kept ones not
    k = 0;
    while k < CAP {
        if k < len {
            assert!(drops(k) == if (mask >> k) & 1 == 1 { 0 } else { 1 }, "C06: retain dropped the wrong elements");
        }
        k += 1;
    }
    drop(b);
    assert_dropped_once(len);
    kani::cover!(true, "END: harness ran to completion");
}

/// drain(start..end), consuming `take` items from the front and `take_back` from the back, then dropping the iterator
#[kani::proof]
#[kani::unwind(10)]
#[kani::stub(core::ptr::copy, crate::stubs::copy_stub)]
#[kani::stub(core::ptr::copy_nonoverlapping, crate::stubs::copy_stub)]
fn box_drain() {
    state!(buf, vals, len, b, m);
    let start: usize = kani::any();
    let end: usize = kani::any();
    kani::assume(start <= end && end <= len);
    let take: usize = kani::any();
    let take_back: bool = kani::any();
    kani::assume(take <= 2);
    let n = end - start;
    {
        let mut d = b.drain(start..end);
        assert!(d.len() == n, "C08: drain reports the wrong length");
        let mut got = 0;
        if take >= 1 {
            match d.next() {
                Some(e) => {
                    assert!(e.id as usize == start && e.val == vals[start], "C08: drain yielded the wrong first element");
                    got += 1;
                }
                None => assert!(n == 0, "C08: drain ended early"),
            }
        }
        if take >= 2 {
            match d.next() {
                Some(e) => {
                    assert!(e.id as usize == start + 1, "C08: drain yielded the wrong second element");
                    got += 1;
                }
                None => assert!(n <= 1, "C08: drain ended early"),
            }
        }
        if take_back {
            match d.next_back() {
                Some(e) => assert!(e.id as usize == end - 1 && n > got, "C08: drain yielded the wrong last element"),
                None => assert!(n <= got, "C08: drain ended early at the back"),
            }
        }
        kani::cover!(n == 3 && got == 1, "partially consumed drain");
        // dropping the iterator drops the rest of the range and closes the gap
    }
    let mut mr = Model::empty();
    let mut k = 0;
    while k < CAP {
        if k < len && !(k >= start && k < end) {
            mr.push(k as u8);
        }
        k += 1;
    }
    assert_is(&b, &mr, &vals);
    k = 0;
    while k < CAP {
        if k < len {
            assert!(drops(k) == if k >= start && k < end { 1 } else { 0 }, "C06: drain dropped the wrong elements");
        }
        k += 1;
    }
    drop(b);
    assert_dropped_once(len);
    kani::cover!(true, "END: harness ran to completion");
}

/// drain(start..end), `take` items from the front (0..2) and `take_back` from the back (0..2), then `keep_rest()`:
/// the slice is the original minus exactly the yielded elements, in order (std `Drain::keep_rest`); the yielded
/// elements belong to the caller, everything else is still owned by the slice (dropped exactly once with it)
#[kani::proof]
#[kani::unwind(10)]
#[kani::stub(core::ptr::copy, crate::stubs::copy_stub)]
#[kani::stub(core::ptr::copy_nonoverlapping, crate::stubs::copy_stub)]
fn box_drain_keep_rest() {
    state!(buf, vals, len, b, m);
    let start: usize = kani::any();
    let end: usize = kani::any();
    kani::assume(start <= end && end <= len);
    let take: usize = kani::any();
    let take_back: usize = kani::any();
    kani::assume(take <= 2 && take_back <= 2);
    let n = end - start;
    let mut front = 0;
    let mut back = 0;
    {
        let mut d = b.drain(start..end);
        if take >= 1 {
            if let Some(e) = d.next() {
                assert!(e.id as usize == start, "C08: drain yielded the wrong first element");
                front += 1;
            }
        }
        if take >= 2 {
            if let Some(e) = d.next() {
                assert!(e.id as usize == start + 1, "C08: drain yielded the wrong second element");
                front += 1;
            }
        }
        if take_back >= 1 {
            if let Some(e) = d.next_back() {
                assert!(e.id as usize == end - 1, "C08: drain yielded the wrong last element");
                back += 1;
            }
        }
        if take_back >= 2 {
            if let Some(e) = d.next_back() {
                assert!(e.id as usize == end - 2, "C08: drain yielded the wrong element from the back");
                back += 1;
            }
        }
        assert!(front + back <= n, "C08: drain yielded more elements than the range holds");
        kani::cover!(front == 0 && back == 1 && end < len, "only next_back, non-empty tail");
        kani::cover!(front == 1 && back == 1 && n == 3, "both ends, one unyielded");
        kani::cover!(front == 1 && back == 0 && n == 2, "only next");
        d.keep_rest();
    }
    // yielded (and already dropped): [start, start+front) and [end-back, end)
    let mut mr = Model::empty();
    let mut k = 0;
    while k < CAP {
        if k < len && !((k >= start && k < start + front) || (k + back >= end && k < end)) {
            mr.push(k as u8);
        }
        k += 1;
    }
    assert_is(&b, &mr, &vals);
    k = 0;
    while k < CAP {
        if k < len {
            let yielded = (k >= start && k < start + front) || (k + back >= end && k < end);
            assert!(drops(k) == if yielded { 1 } else { 0 }, "C06: keep_rest dropped or lost the wrong elements");
        }
        k += 1;
    }
    drop(b);
    assert_dropped_once(len);
    kani::cover!(true, "END: harness ran to completion");
}

/// extract_if under every predicate, consumed `take` items then dropped
#[kani::proof]
#[kani::unwind(10)]
#[kani::stub(core::ptr::copy, crate::stubs::copy_stub)]
#[kani::stub(core::ptr::copy_nonoverlapping, crate::stubs::copy_stub)]
fn box_extract_if() {
    state!(buf, vals, len, b, m);
    let mask: u8 = kani::any();
    let take: usize = kani::any();
    kani::assume(take <= CAP);
    let mut taken = 0usize;
    let mut visited: u8 = 0;
    {
        let mut it = b.extract_if(|e| {
            visited |= 1 << e.id;
            (mask >> e.id) & 1 == 1
        });
        let mut k = 0;
        while k < CAP {
            if k < take {
                if let Some(e) = it.next() {
                    assert!((mask >> e.id) & 1 == 1, "C08: extract_if yielded an element the predicate rejected");
                    taken += 1;
                }
            }
            k += 1;
        }
    }
    // std semantics: elements not visited stay; visited & selected are removed (and dropped by us), rest stay in order
    let mut mr = Model::empty();
    let mut k = 0;
    let mut removed = 0;
    while k < CAP {
        if k < len {
            let was_removed = (visited >> k) & 1 == 1 && (mask >> k) & 1 == 1;
            if was_removed {
                removed += 1;
            } else {
                mr.push(k as u8);
            }
        }
        k += 1;
    }
    assert!(removed == taken, "C08: extract_if removed elements it did not yield");
    kani::cover!(len == CAP && taken == 1 && mr.len == 3, "partially consumed extract_if");
    kani::cover!(len == CAP && taken == 2, "two extracted");
    assert_is(&b, &mr, &vals);
    drop(b);
    assert_dropped_once(len);
    kani::cover!(true, "END: harness ran to completion");
}

/// dedup_by under every "same bucket" relation between neighbours
#[kani::proof]
#[kani::unwind(10)]
#[kani::stub(core::ptr::copy, crate::stubs::copy_stub)]
#[kani::stub(core::ptr::copy_nonoverlapping, crate::stubs::copy_stub)]
fn box_dedup_by() {
    state!(buf, vals, len, b, m);
    // ANY relation over (current id, id of the element it is compared with): bit 4*cur + prev. std's contract:
    // same_bucket(a, b) receives the current element and the last RETAINED element, both live; it may mutate both.
    let rel: u16 = kani::any();
    let bump: u8 = kani::any();
    b.dedup_by(|cur, prev| {
        assert!((cur.id as usize) < CAP && (prev.id as usize) < CAP, "C08: dedup_by handed a garbage element to the predicate");
        assert!(drops(cur.id as usize) == 0 && drops(prev.id as usize) == 0, "C08/C06: dedup_by handed an already dropped element to the predicate");
        let same = (rel >> (4 * cur.id + prev.id)) & 1 == 1;
        if same {
            // the merge idiom: fold the removed element into the retained one
            prev.val = prev.val.wrapping_add(bump);
        }
        same
    });
    let mut mr = Model::empty();
    let mut exp = vals;
    let mut last = 0usize;
    let mut k = 0;
    while k < CAP {
        if k < len {
            if k == 0 {
                mr.push(0);
            } else if (rel >> (4 * k + last)) & 1 == 1 {
                exp[last] = exp[last].wrapping_add(bump);
            } else {
                mr.push(k as u8);
                last = k;
            }
        }
        k += 1;
    }
    kani::cover!(len == CAP && mr.len == 2, "two duplicates removed");
    kani::cover!(len == CAP && mr.len == 1, "a run of four collapsed into one");
    kani::cover!(len == CAP && mr.len == 2 && mr.ids[1] == 3, "a run of three collapsed, then a retained element");
    assert_is(&b, &mr, &exp);
    drop(b);
    assert_dropped_once(len);
    kani::cover!(true, "END: harness ran to completion");
}

/// partition under every predicate: parts are a permutation-free partition (order inside a part is unspecified)
#[kani::proof]
#[kani::unwind(10)]
#[kani::stub(core::ptr::copy, crate::stubs::copy_stub)]
#[kani::stub(core::ptr::copy_nonoverlapping, crate::stubs::copy_stub)]
fn box_partition() {
    state!(buf, vals, len, b, m);
    let mask: u8 = kani::any();
    let (t, f) = b.partition(|e| (mask >> e.id) & 1 == 1);
    let mut seen: u8 = 0;
    let mut k = 0;
    while k < CAP {
        if k < t.len() {
            let e = &t[k];
            assert!((mask >> e.id) & 1 == 1, "C16: partition put a rejected element into the true part");
            assert!((seen >> e.id) & 1 == 0, "C16: partition duplicated an element");
            assert!(e.val == vals[e.id as usize], "C16: partition corrupted a payload");
            seen |= 1 << e.id;
        }
        if k < f.len() {
            let e = &f[k];
            assert!((mask >> e.id) & 1 == 0, "C16: partition put an accepted element into the false part");
            assert!((seen >> e.id) & 1 == 0, "C16: partition duplicated an element");
            assert!(e.val == vals[e.id as usize], "C16: partition corrupted a payload");
            seen |= 1 << e.id;
        }
        k += 1;
    }
    assert!(t.len() + f.len() == len, "C16: partition lost or invented elements");
    kani::cover!(t.len() == 2 && f.len() == 2, "2/2 partition");
    drop(f);
    drop(t);
    assert_dropped_once(len);
    kani::cover!(true, "END: harness ran to completion");
}

/// map_in_place to a smaller sized type and to the same type
#[kani::proof]
#[kani::unwind(10)]
#[kani::stub(core::ptr::copy, crate::stubs::copy_stub)]
#[kani::stub(core::ptr::copy_nonoverlapping, crate::stubs::copy_stub)]
fn box_map_in_place() {
    state!(buf, vals, len, b, m);
    let mapped: BumpBox<[u8]> = b.map_in_place(|e| e.val);
    assert!(mapped.len() == len, "C16: map_in_place changed the element count");
    let mut k = 0;
    while k < CAP {
        if k < len {
            assert!(mapped[k] == vals[k], "C16: map_in_place changed the order");
        }
        k += 1;
    }
    kani::cover!(len == CAP, "full slice mapped");
    // every source element was consumed (dropped by the closure) exactly once
    assert_dropped_once(len);
    drop(mapped);
    assert_dropped_once(len);
    kani::cover!(true, "END: harness ran to completion");
}

#[kani::proof]
#[kani::unwind(10)]
#[kani::stub(core::ptr::copy, crate::stubs::copy_stub)]
#[kani::stub(core::ptr::copy_nonoverlapping, crate::stubs::copy_stub)]
fn box_map_in_place_same() {
    state!(buf, vals, len, b, m);
    let mapped: BumpBox<[E]> = b.map_in_place(|e| {
        let e = mem::ManuallyDrop::new(e);
        E { id: e.id, val: e.val ^ 0xFF }
    });
    assert!(mapped.len() == len, "C16: map_in_place changed the element count");
    let mut k = 0;
    while k < CAP {
        if k < len {
            assert!(mapped[k].id as usize == k && mapped[k].val == vals[k] ^ 0xFF, "C16: map_in_place changed the order");
        }
        k += 1;
    }
    drop(mapped);
    assert_dropped_once(len);
    kani::cover!(true, "END: harness ran to completion");
}

/// into_iter consumed partially from both ends, then dropped
#[kani::proof]
#[kani::unwind(10)]
#[kani::stub(core::ptr::copy, crate::stubs::copy_stub)]
#[kani::stub(core::ptr::copy_nonoverlapping, crate::stubs::copy_stub)]
fn box_into_iter() {
    state!(buf, vals, len, b, m);
    let nf: usize = kani::any();
    let nb: usize = kani::any();
    kani::assume(nf <= 2 && nb <= 2);
    {
        let mut it = b.into_iter();
        assert!(it.len() == len, "C08: into_iter reports the wrong length");
        let mut front = 0;
        let mut back = 0;
        if nf >= 1 {
            if let Some(e) = it.next() {
                assert!(e.id == 0, "C08: into_iter wrong first");
                front += 1;
            }
        }
        if nb >= 1 {
            if let Some(e) = it.next_back() {
                assert!(e.id as usize == len - 1, "C08: into_iter wrong last");
                back += 1;
            }
        }
        if nf >= 2 {
            if let Some(e) = it.next() {
                assert!(e.id == 1, "C08: into_iter wrong second");
                front += 1;
            }
        }
        if nb >= 2 {
            if let Some(e) = it.next_back() {
                assert!(e.id as usize == len - 2, "C08: into_iter wrong second to last");
                back += 1;
            }
        }
        assert!(it.len() == len - front - back, "C08: into_iter length after partial consumption");
        kani::cover!(len == CAP && front == 1 && back == 1, "consumed one from each end");
        kani::cover!(len == 3 && front == 2 && back == 1, "exhausted from both ends");
    }
    assert_dropped_once(len);
    kani::cover!(true, "END: harness ran to completion");
}

/// into_flattened keeps count and order
#[kani::proof]
#[kani::unwind(10)]
#[kani::stub(core::ptr::copy, crate::stubs::copy_stub)]
#[kani::stub(core::ptr::copy_nonoverlapping, crate::stubs::copy_stub)]
fn box_into_flattened() {
    let vals = any_vals();
    let n: usize = kani::any();
    kani::assume(n <= 2);
    let mut buf = new_buf();
    let b: BumpBox<[[E; 2]]> = unsafe {
        let mut k = 0;
        while k < CAP {
            if k < 2 * n {
                buf[k].write(E { id: k as u8, val: vals[k] });
            }
            k += 1;
        }
        BumpBox::from_raw(NonNull::slice_from_raw_parts(NonNull::new_unchecked(buf.as_mut_ptr()).cast::<[E; 2]>(), n))
    };
    let flat = b.into_flattened();
    let m = Model::initial(2 * n);
    kani::cover!(n == 2, "two arrays flattened");
    assert_is(&flat, &m, &vals);
    drop(flat);
    assert_dropped_once(2 * n);
    kani::cover!(true, "END: harness ran to completion");
}

/// BumpBox<T>: drop, into_inner, leak, into_raw/from_raw (into_ref/into_mut need `NoDrop`, so they cannot skip a destructor)
#[kani::proof]
#[kani::unwind(10)]
#[kani::stub(core::ptr::copy, crate::stubs::copy_stub)]
#[kani::stub(core::ptr::copy_nonoverlapping, crate::stubs::copy_stub)]
fn box_single_routes() {
    let val: u8 = kani::any();
    let route: u8 = kani::any();
    kani::assume(route < 4);
    let mut slot = MaybeUninit::<E>::uninit();
    slot.write(E { id: 0, val });
    let b: BumpBox<E> = unsafe { BumpBox::from_raw(NonNull::new_unchecked(slot.as_mut_ptr())) };
    assert!(b.val == val, "payload");
    match route {
        0 => {
            drop(b);
            assert!(drops(0) == 1, "C06: dropping a BumpBox did not drop its value");
        }
        1 => {
            let e = b.into_inner();
            assert!(drops(0) == 0, "C06: into_inner dropped the value");
            assert!(e.val == val, "C06: into_inner returned a different value");
            drop(e);
            assert!(drops(0) == 1, "C06: value lost");
        }
        2 => {
            let r = BumpBox::leak(b);
            assert!(r.val == val && drops(0) == 0, "C06: leak dropped the value");
        }
        _ => {
            let p = b.into_raw();
            assert!(drops(0) == 0, "C06: into_raw dropped the value");
            let b2 = unsafe { BumpBox::from_raw(p) };
            drop(b2);
            assert!(drops(0) == 1, "C06: value lost through into_raw/from_raw");
        }
    }
    kani::cover!(true, "END: harness ran to completion");
}

// ---- zero-sized twins -----------------------------------------------------------------------

unsafe fn zbox<'a>(len: usize) -> BumpBox<'a, [Z]> {
    unsafe { BumpBox::from_raw(NonNull::slice_from_raw_parts(NonNull::<Z>::dangling(), len)) }
}

#[kani::proof]
#[kani::unwind(10)]
#[kani::stub(core::ptr::copy, crate::stubs::copy_stub)]
#[kani::stub(core::ptr::copy_nonoverlapping, crate::stubs::copy_stub)]
fn box_zst_ops() {
    let len = any_len();
    let mut b = unsafe { zbox(len) };
    let op: u8 = kani::any();
    kani::assume(op < 6);
    let mut expect_left = len;
    match op {
        0 => {
            let r = b.pop();
            assert!(r.is_some() == (len > 0), "C08: zst pop");
            mem::forget(r);
            expect_left = len.saturating_sub(1);
        }
        1 => {
            let n: usize = kani::any();
            b.truncate(n);
            expect_left = if n < len { n } else { len };
            assert!(zdrops() == len - expect_left, "C06: zst truncate dropped the wrong number of values");
        }
        2 => {
            let i: usize = kani::any();
            kani::assume(i < len);
            mem::forget(b.remove(i));
            expect_left = len - 1;
        }
        3 => {
            let i: usize = kani::any();
            kani::assume(i < len);
            mem::forget(b.swap_remove(i));
            expect_left = len - 1;
        }
        4 => {
            let s: usize = kani::any();
            let e: usize = kani::any();
            kani::assume(s <= e && e <= len);
            let off = b.split_off(s..e);
            assert!(off.len() == e - s && b.len() == len - (e - s), "C16: zst split_off lengths");
            mem::forget(off);
            expect_left = len - (e - s);
        }
        _ => {
            b.clear();
            assert!(zdrops() == len, "C06: zst clear dropped the wrong number of values");
            expect_left = 0;
        }
    }
    assert!(b.len() == expect_left, "C08: zst length after the operation");
    let before = zdrops();
    drop(b);
    assert!(zdrops() == before + expect_left, "C06: zst values dropped a wrong number of times");
    kani::cover!(true, "END: harness ran to completion");
}



/// zero-sized elements through the iterator-shaped owners: drain(s..e) / into_iter not advanced, then
/// dropped (or keep_rest): every value is dropped exactly once in total - the yielded ones by the caller (here: counted
/// when the harness drops them), the rest of the range by the iterator, the remaining elements with the slice.
/// (ZSTs have no identity, so "exactly once" is the total count: len drops when everything is gone.)
#[kani::proof]
#[kani::unwind(10)]
#[kani::stub(core::ptr::copy, crate::stubs::copy_stub)]
#[kani::stub(core::ptr::copy_nonoverlapping, crate::stubs::copy_stub)]
fn box_zst_iters() {
    let len = any_len();
    let mut b = unsafe { zbox(len) };
    let op: u8 = kani::any();
    kani::assume(op < 3);
    // The iterators are NOT advanced here: `next()` of a ZST iterator is `mem::zeroed::<Z>()`, a zero-byte memset on a
    // zero-sized local, for which CBMC 6.11 reports "memset destination region writeable" (tool artifact; the sized
    // harnesses box_drain / box_into_iter cover consumption). What is decided: an un-consumed or kept iterator.
    let take = false;
    let take_back = false;
    let s: usize = kani::any();
    let e: usize = kani::any();
    kani::assume(s <= e && e <= len);
    match op {
        0 | 1 => {
            let mut yielded = 0;
            {
                let mut d = b.drain(s..e);
                assert!(d.len() == e - s, "C08: zst drain reports the wrong length");
                if take {
                    if let Some(z) = d.next() {
                        mem::forget(z);
                        yielded += 1;
                    }
                }
                if take_back {
                    if let Some(z) = d.next_back() {
                        mem::forget(z);
                        yielded += 1;
                    }
                }
                assert!(yielded <= e - s, "C08: zst drain yielded more values than the range holds");
                kani::cover!(e - s == 2 && e < len, "zst drain of an interior range");
                if op == 1 {
                    d.keep_rest();
                }
            }
            if op == 0 {
                // the un-yielded part of the range was dropped with the iterator - each value once
                assert!(zdrops() == (e - s) - yielded, "C06: dropping a zst Drain dropped the un-yielded values a wrong number of times");
                assert!(b.len() == len - (e - s), "C08: zst length after drain");
            } else {
                assert!(zdrops() == 0, "C06: zst keep_rest dropped values");
                assert!(b.len() == len - yielded, "C08: zst length after drain + keep_rest");
            }
            let before = zdrops();
            let left = b.len();
            drop(b);
            assert!(zdrops() == before + left, "C06: zst values dropped a wrong number of times");
        }
        _ => {
            let mut yielded = 0;
            let mut it = b.into_iter();
            assert!(it.len() == len, "C08: zst into_iter reports the wrong length");
            if take {
                if let Some(z) = it.next() {
                    mem::forget(z);
                    yielded += 1;
                }
            }
            if take_back {
                if let Some(z) = it.next_back() {
                    mem::forget(z);
                    yielded += 1;
                }
            }
            drop(it);
            assert!(zdrops() == len - yielded, "C06: dropping a zst IntoIter dropped the un-yielded values a wrong number of times");
        }
    }
    kani::cover!(true, "END: harness ran to completion");
}

pub unsafe fn no_rotate<T>(_left: usize, _mid: *mut T, _right: usize) {
    kani::assert(false, "C16: split_off rotated elements for a prefix / suffix / empty range");
    kani::assume(false);
}
