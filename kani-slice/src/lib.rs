//! E-slice: one collection operation from an arbitrary valid state, built directly over a stack array
//! (`BumpBox::from_raw` + `FixedBumpVec::from_uninit`), compared with a plain-array reference semantics.
#![allow(clippy::all)]

#[cfg(kani)]
#[path = "/verif/lib/kani_stubs.rs"]
pub mod stubs;
#[cfg(kani)]
pub mod common;
#[cfg(kani)]
mod boxed;
#[cfg(kani)]
mod fixed;
#[cfg(kani)]
mod panics;
#[cfg(kani)]
mod strings;
