//! C09, C-string clause: `MutBumpString::try_into_cstr` / `alloc_cstr_from_str` produce the bytes up to (not including)
//! the FIRST NUL of the text followed by exactly one NUL - for every text of <= 4 ASCII bytes (NULs anywhere, also
//! trailing: fourth-round seeded change "a string that already ends in NUL is used as is").
use crate::check;
use crate::common::*;
use bump_scope::{Bump, MutBumpString};

fn first_nul(b: &[u8; 4], len: usize) -> usize {
    if len > 0 && b[0] == 0 {
        0
    } else if len > 1 && b[1] == 0 {
        1
    } else if len > 2 && b[2] == 0 {
        2
    } else if len > 3 && b[3] == 0 {
        3
    } else {
        len
    }
}

fn any_ascii(len: usize) -> [u8; 4] {
    let b: [u8; 4] = kani::any();
    kani::assume(b[0] < 0x80 && b[1] < 0x80 && b[2] < 0x80 && b[3] < 0x80);
    b
}

fn check_cstr(out: &[u8], b: &[u8; 4], len: usize) {
    let k = first_nul(b, len);
    check!(out.len() == k + 1, "C09: C string is not the text up to its first NUL plus one NUL (length)");
    let j: usize = kani::any();
    kani::assume(j < k);
    check!(out[j] == b[j], "C09: C string bytes differ from the text before its first NUL");
    check!(out[k] == 0, "C09: C string is not NUL terminated");
    kani::cover!(k < len && b[len - 1] == 0 && k != len - 1, "text with an interior NUL that also ends in NUL");
    kani::cover!(k == len && len == 4, "text without NUL");
}

fn into_cstr_body<const UP: bool>() {
    set_budget(1);
    let Ok(bump) = Bump::<VA, S<1, UP>>::try_new() else { return };
    let mut bump = core::mem::ManuallyDrop::new(bump);
    set_budget(0);
    let len: usize = kani::any();
    kani::assume(len <= 4);
    let b = any_ascii(len);
    // capacity 5: the terminating NUL never needs growth (growth is the subject of C15 / C07)
    let Ok(mut s) = MutBumpString::try_with_capacity_in(5, &mut *bump) else { return };
    let text = unsafe { core::str::from_utf8_unchecked(core::slice::from_raw_parts(b.as_ptr(), len)) };
    let Ok(()) = s.try_push_str(text) else { return };
    let Ok(c) = s.try_into_cstr() else { return };
    check_cstr(c.to_bytes_with_nul(), &b, len);
    kani::cover!(true, "END: harness ran to completion");
}

fn from_str_body<const UP: bool>() {
    set_budget(1);
    let Ok(bump) = Bump::<VA, S<1, UP>>::try_new() else { return };
    let bump = core::mem::ManuallyDrop::new(bump);
    set_budget(0);
    let len: usize = kani::any();
    kani::assume(len <= 4);
    let b = any_ascii(len);
    let text = unsafe { core::str::from_utf8_unchecked(core::slice::from_raw_parts(b.as_ptr(), len)) };
    let Ok(c) = bump.try_alloc_cstr_from_str(text) else { return };
    check_cstr(c.to_bytes_with_nul(), &b, len);
    kani::cover!(true, "END: harness ran to completion");
}

macro_rules! h {
    ($name:ident, $body:expr) => {
        #[kani::proof]
        #[kani::unwind(7)]
        #[kani::stub(std::alloc::handle_alloc_error, crate::stubs::hae_stub)]
        fn $name() {
            $body;
        }
    };
}
h!(cstr_into_mut_up1, into_cstr_body::<true>());
h!(cstr_into_mut_down1, into_cstr_body::<false>());
h!(cstr_from_str_up1, from_str_body::<true>());
h!(cstr_from_str_down1, from_str_body::<false>());
