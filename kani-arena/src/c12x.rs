//! C12 cross-check on the real arena: every way of creating a chunk for a layout yields a chunk in which that layout
//! can be allocated without another base-allocator call; the chunk geometry equals the E-pure placement model.
use crate::check;
use crate::common::*;
use bump_scope::alloc::Allocator;
use bump_scope::settings::BumpAllocatorSettings;
use bump_scope::{BaseAllocator, Bump};
use core::alloc::Layout;

/// PATH: 0 try_with_capacity_in, 1 first allocation on an unallocated arena, 2 try_reserve(n) then allocate(L(n,1)),
/// 3 slow path of allocate on a chunk that is too full
fn create_fits<A, St: BumpAllocatorSettings, const PATH: u8>(header_size: usize, header_align: usize)
where
    A: BaseAllocator<St::GuaranteedAllocated> + BaseAllocator<bump_scope::settings::True> + BaseAllocator<bump_scope::settings::False> + Default,
{
    let layout = any_layout(40, 5);
    kani::assume(layout.size() > 0);
    let before_calls;
    match PATH {
        0 => {
            set_budget(1);
            let Ok(bump) = Bump::<A, St>::try_with_capacity_in(layout, A::default()) else {
                kani::cover!(true, "[refused] the stub refused the chunk size");
                return;
            };
    // never run Drop for Bump on early-return paths (it walks the chunk list and calls the base allocator: pure cost)
    let mut bump = core::mem::ManuallyDrop::new(bump);
            set_budget(0);
            check_geometry(&*bump, header_size, header_align);
            before_calls = calls();
            check!(bump.stats().count() == 1, "C12: with_capacity created more than one chunk");
            let r = bump.allocate(layout);
            check!(r.is_ok(), "C12: the layout a Bump was created for (with_capacity) does not fit");
            check!(calls() == before_calls && bump.stats().count() == 1, "C12: allocating the with_capacity layout needed another chunk");
                }
        2 => {
            set_budget(1);
            let Ok(bump) = Bump::<A, St>::try_new() else { return };
    // never run Drop for Bump on early-return paths (it walks the chunk list and calls the base allocator: pure cost)
    let mut bump = core::mem::ManuallyDrop::new(bump);
            set_budget(0);
            let n = layout.size() + bump.stats().remaining();
            set_budget(1);
            let r = bump.try_reserve(n);
            set_budget(0);
            if r.is_err() {
                kani::cover!(true, "[refused] the stub refused the chunk size");
                            return;
            }
            kani::cover!(bump.stats().count() == 2, "[reserve] reserve created a chunk");
            check_geometry(&*bump, header_size, header_align);
            // the promise of reserve: `n` more bytes can be allocated without a base-allocator call. The first chunk's
            // remainder and the new chunk together hold them; here: the part that did not fit in chunk 1
            before_calls = calls();
            let l = Layout::from_size_align(layout.size(), 1).unwrap();
            // fill what is left of the current chunk, then the reserved part must fit in the next one
            let rest = bump.stats().current_chunk().unwrap().remaining();
            if rest > 0 {
                let _ = bump.allocate(Layout::from_size_align(rest, 1).unwrap());
            }
            let r = bump.allocate(l);
            check!(r.is_ok(), "C12: reserved bytes cannot be allocated");
            check!(calls() == before_calls, "C12: allocating reserved bytes called the base allocator");
                }
        _ => {
            set_budget(1);
            let Ok(bump) = Bump::<A, St>::try_new() else { return };
    // never run Drop for Bump on early-return paths (it walks the chunk list and calls the base allocator: pure cost)
    let mut bump = core::mem::ManuallyDrop::new(bump);
            set_budget(0);
            // make the chunk too full for `layout`: leave less than its size
            let rest = bump.stats().current_chunk().unwrap().remaining();
            if rest >= layout.size() {
                let eat = rest - layout.size() + 1;
                let _ = bump.allocate(Layout::from_size_align(eat, 1).unwrap());
            }
            before_calls = calls();
            set_budget(1);
            let r = bump.allocate(layout);
            set_budget(0);
            if r.is_err() {
                kani::cover!(true, "[refused] the stub refused the chunk size");
                            return;
            }
            // exactly one chunk was created and it served the request
            check!(calls() == before_calls + 1, "C12: the slow path called the base allocator more than once");
            check!(bump.stats().count() == 2, "C12: the slow path did not create exactly one chunk");
            check_geometry(&*bump, header_size, header_align);
            let p = addr(r.unwrap().cast());
            let c = bump.stats().current_chunk().unwrap();
            check!(p >= addr(c.content_start()) && p + layout.size() <= addr(c.content_end()), "C12: block is not inside the chunk that was created for it");
            check!(p % layout.align() == 0, "C12/C01: block misaligned");
                }
    }
    kani::cover!(true, "END: harness ran to completion");
}

fn create_first<A, const UP: bool, const MAXS: usize, const MAXA: u32>(header_size: usize, header_align: usize)
where
    A: BaseAllocator<bump_scope::settings::False> + Default,
{
    let layout = any_layout(MAXS, MAXA);
    kani::assume(layout.size() > 0);
    let bump = core::mem::ManuallyDrop::new(Bump::<A, S<1, UP, false>>::unallocated());
    set_budget(1);
    let r = bump.allocate(layout);
    set_budget(0);
    if r.is_err() {
        kani::cover!(true, "[refused] the stub refused the chunk size");
        return;
    }
    check!(calls() == 1 && bump.stats().count() == 1, "C12: first allocation of an unallocated arena did not create exactly one chunk");
    check_geometry(&*bump, header_size, header_align);
    let p = addr(r.unwrap().cast());
    check!(p % layout.align() == 0, "C12/C01: block misaligned");
    let c = bump.stats().current_chunk().unwrap();
    check!(p >= addr(c.content_start()) && p + layout.size() <= addr(c.content_end()), "C12: first block outside the chunk created for it");
    kani::cover!(if UP { p > addr(c.content_start()) } else { p + layout.size() < addr(c.content_end()) }, "[pad] the first block needed alignment padding at the start of the fresh chunk");
    kani::cover!(true, "END: harness ran to completion");
}

/// the placement model of kani-pure/src/c12.rs (`create`): up: content = [start+hdr, start+size); down: [start, start+size-hdr)
fn check_geometry<A, St: BumpAllocatorSettings>(bump: &Bump<A, St>, header_size: usize, header_align: usize)
where
    A: BaseAllocator<St::GuaranteedAllocated>,
{
    // the chunk that was created last (reserve appends a chunk without making it the current one)
    let c = bump.stats().big_to_small().next().unwrap();
    let (cs, ce, s, e) = (addr(c.chunk_start()), addr(c.chunk_end()), addr(c.content_start()), addr(c.content_end()));
    let size = ce - cs;
    check!(size % 16 == 0, "C12: chunk size not a multiple of 16");
    check!(cs % header_align == 0, "C12: chunk start not aligned for the header");
    if St::UP {
        check!(s == cs + header_size && e == ce, "C12: content range differs from the placement model (up)");
    } else {
        check!(size % header_align == 0, "C12: chunk size not a multiple of the header alignment (down)");
        check!(s == cs && e == ce - header_size, "C12: content range differs from the placement model (down)");
    }
    // the granted block covers the chunk
    let g = unsafe { LOG[grants() - 1] };
    check!(g.addr == cs && size >= g.requested && size <= g.granted, "C12: chunk does not fit the granted block");
}

macro_rules! h {
    ($name:ident, $body:expr) => {
        #[kani::proof]
        #[kani::unwind(6)]
        #[kani::stub(std::alloc::handle_alloc_error, crate::stubs::hae_stub)]
        fn $name() {
            $body;
        }
    };
}
h!(c12x_with_capacity_va_up, create_fits::<VA, S<1, true>, 0>(32, 16));
h!(c12x_with_capacity_va_down, create_fits::<VA, S<1, false>, 0>(32, 16));
h!(c12x_with_capacity_stateful_up, create_fits::<VAStateful, S<1, true>, 0>(48, 16));
h!(c12x_with_capacity_over_down, create_fits::<VAOver, S<1, false>, 0>(64, 32));
h!(c12x_with_capacity_over_up, create_fits::<VAOver, S<1, true>, 0>(64, 32));
h!(c12x_reserve_va_up, create_fits::<VA, S<1, true>, 2>(32, 16));
h!(c12x_reserve_va_down, create_fits::<VA, S<1, false>, 2>(32, 16));
h!(c12x_slow_va_up, create_fits::<VA, S<1, true>, 3>(32, 16));
h!(c12x_slow_va_down, create_fits::<VA, S<1, false>, 3>(32, 16));
h!(c12x_slow_va_extra24_up, create_fits::<VA<24>, S<1, true>, 3>(32, 16));
h!(c12x_slow_stateful_down, create_fits::<VAStateful, S<1, false>, 3>(48, 16));
h!(c12x_first_va_up, create_first::<VA, true, 40, 5>(32, 16));
h!(c12x_first_va_down, create_first::<VA, false, 40, 5>(32, 16));
h!(c12x_first_stateful_up, create_first::<VAStateful, true, 40, 5>(48, 16));
// chunk start only 16-aligned (interior-pointer stub): over-aligned first requests need padding in the fresh chunk
h!(c12x_first_off48_up, create_first::<VAOff<48>, true, 64, 6>(32, 16));
h!(c12x_first_off16_down, create_first::<VAOff<16>, false, 64, 6>(32, 16));
h!(c12x_slow_off48_up, create_fits::<VAOff<48>, S<1, true>, 3>(32, 16));
