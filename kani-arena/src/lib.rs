//! E-arena: the real arena through its public API, on verification base allocators whose blocks are
//! concrete-size heap objects (DESIGN.md 2.2, 2.5, 2.8).
#![allow(clippy::all)]

#[cfg(kani)]
#[path = "/verif/lib/kani_stubs.rs"]
pub mod stubs;
#[cfg(kani)]
pub mod common;
#[cfg(kani)]
pub mod step;
#[cfg(kani)]
mod claim;
#[cfg(kani)]
mod scope;
#[cfg(kani)]
mod chunks;
#[cfg(kani)]
mod stats;
#[cfg(kani)]
mod align;
#[cfg(kani)]
mod entry;
#[cfg(kani)]
mod fail;
#[cfg(kani)]
mod c12x;
#[cfg(kani)]
mod mutvec;
#[cfg(kani)]
mod vecs;
#[cfg(kani)]
mod slices;
#[cfg(kani)]
mod pool;
#[cfg(kani)]
mod zst;
#[cfg(kani)]
mod fail2;
#[cfg(kani)]
mod zero;
#[cfg(kani)]
mod pool2;
#[cfg(kani)]
mod splice;
#[cfg(kani)]
mod stats2;
#[cfg(kani)]
mod bvec;
#[cfg(kani)]
mod mutvec2;
#[cfg(kani)]
mod failfmt;
#[cfg(kani)]
mod cstr;
