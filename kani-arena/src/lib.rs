//! E-arena: the real arena through its public API, on verification base allocators whose blocks are
//! concrete-size heap objects (DESIGN.md 2.2, 2.5).
#![allow(clippy::all)]

#[cfg(kani)]
#[path = "/verif/lib/kani_stubs.rs"]
pub mod stubs;
#[cfg(kani)]
pub mod common;
#[cfg(kani)]
pub mod step;
#[cfg(kani)]
mod claim;
#[cfg(kani)]
mod scope;
#[cfg(kani)]
mod probe;
