//! BumpVec on the REAL arena: ONE operation from an arbitrary state (arena halves of C06 / C08 / C16, collection
//! clauses of C07 / C10 / C13).
//!
//! State: a `BumpVec<u8 | D, &Bump<VA, S>>` whose buffer of CONCRETE capacity `CAP0` lives in the 16-byte chunk, with a
//! SYMBOLIC length `n <= CAP0` and symbolic element values (written raw + `set_len`, no library algorithm), optionally
//! followed by another live block (`FILL_AFTER > 0`: the buffer is then not the newest allocation and cannot grow in
//! place / be reclaimed). One operation with symbolic arguments is run and compared with the `Vec` reference semantics
//! for that operation. The harness bodies contain NO loops (the unwinding bound is global: DESIGN.md 2.5) - the first
//! version of these harnesses (vecs.rs, parked) filled its vectors in `while` loops under `unwind(8)` and never
//! finished; this formulation takes 4-8 min per harness.
use crate::check;
use crate::common::*;
use bump_scope::alloc::Allocator;
use bump_scope::settings::BumpAllocatorSettings;
use bump_scope::{BaseAllocator, Bump, BumpVec};
use core::alloc::Layout;
use core::mem::ManuallyDrop;

pub static mut DROPS: [u8; 16] = [0; 16];

/// instrumented ONE-byte element (one byte: CBMC models symbolic-count copies of 1-byte elements correctly, see
/// DESIGN.md 2.8); the byte is the id. A second drop of an id is an immediate failed check.
#[repr(transparent)]
pub struct D(u8);
impl Drop for D {
    fn drop(&mut self) {
        unsafe {
            let i = self.0 as usize;
            check!(i < 16, "C06: dropped a value that was never created");
            check!(DROPS[i] == 0, "C06: value dropped twice");
            DROPS[i] = 1;
        }
    }
}
fn dropped(i: usize) -> u8 {
    unsafe { DROPS[i] }
}

/// arena + BumpVec<u8> state. `$v` is ManuallyDrop (dropping is a separate subject).
macro_rules! state_u8 {
    ($St:ty, $CAP0:expr, $FILL_AFTER:expr, $bump:ident, $v:ident, $vals:ident, $n:ident) => {
        set_budget(1);
        let Ok($bump) = Bump::<VA, $St>::try_new() else { return };
        let $bump = ManuallyDrop::new($bump);
        set_budget(0);
        let Ok($v) = BumpVec::<u8, _>::try_with_capacity_in($CAP0, &*$bump) else { return };
        #[allow(unused_mut)]
        let mut $v = ManuallyDrop::new($v);
        kani::assume($v.capacity() == $CAP0);
        let $vals: [u8; 8] = kani::any();
        let $n: usize = kani::any();
        kani::assume($n <= $CAP0);
        unsafe {
            core::ptr::copy_nonoverlapping($vals.as_ptr(), $v.as_mut_ptr(), $CAP0);
            $v.set_len($n);
        }
        if $FILL_AFTER > 0 {
            let Ok(_) = $bump.allocate(Layout::from_size_align($FILL_AFTER, 1).unwrap()) else { return };
        }
    };
}

/// try_push on every state: within capacity no reallocation; at capacity amortised growth (in place when newest and
/// upward, moved otherwise) or a clean error
fn one_push<St: BumpAllocatorSettings, const CAP0: usize, const FILL_AFTER: usize>()
where
    VA: BaseAllocator<St::GuaranteedAllocated>,
{
    state_u8!(St, CAP0, FILL_AFTER, bump, v, vals, n);
    let p0 = v.as_ptr() as usize;
    let r = v.try_push(vals[7]);
    kani::cover!(r.is_ok() && n == CAP0 && v.as_ptr() as usize == p0, "[inplace] grew in place");
    kani::cover!(r.is_ok() && n == CAP0 && v.as_ptr() as usize != p0, "[moved] grew by moving");
    kani::cover!(r.is_ok() && n < CAP0, "no growth needed");
    kani::cover!(r.is_err(), "[fail] growth failed");
    match r {
        Ok(()) => {
            check!(v.len() == n + 1 && v.capacity() >= v.len(), "C08: len/capacity after push");
            if n < CAP0 {
                check!(v.as_ptr() as usize == p0 && v.capacity() == CAP0, "C08: buffer moved although the reserved capacity suffices");
            } else {
                check!(v.capacity() >= 2 * CAP0, "C08: growth is not amortised");
            }
            let i: usize = kani::any();
            kani::assume(i < n);
            check!(v[i] == vals[i], "C08/C02: push lost or changed an element");
            check!(v[n] == vals[7], "C08: pushed element differs");
        }
        Err(_) => {
            check!(n == CAP0, "C07/C08: push failed although the reserved capacity suffices");
            check!(v.len() == n && v.as_ptr() as usize == p0 && v.capacity() == CAP0, "C07: failed push changed the vector");
        }
    }
    kani::cover!(true, "END: harness ran to completion");
}

/// try_insert(i, x), i <= len (out-of-range indices: must-panic harness `bvec_insert_oob`)
fn one_insert<St: BumpAllocatorSettings, const CAP0: usize, const FILL_AFTER: usize>()
where
    VA: BaseAllocator<St::GuaranteedAllocated>,
{
    state_u8!(St, CAP0, FILL_AFTER, bump, v, vals, n);
    let i: usize = kani::any();
    kani::assume(i <= n);
    let p0 = v.as_ptr() as usize;
    let r = v.try_insert(i, vals[7]);
    kani::cover!(r.is_ok() && n == CAP0 && i == 1, "insert with growth");
    kani::cover!(r.is_ok() && n < CAP0 && i == 0 && n > 0, "insert at the front without growth");
    kani::cover!(r.is_err(), "[fail] growth failed");
    match r {
        Ok(()) => {
            check!(v.len() == n + 1 && v.capacity() >= v.len(), "C08: len/capacity after insert");
            if n < CAP0 {
                check!(v.as_ptr() as usize == p0 && v.capacity() == CAP0, "C08: buffer moved although the reserved capacity suffices");
            }
            let j: usize = kani::any();
            kani::assume(j <= n);
            let want = if j < i { vals[j] } else if j == i { vals[7] } else { vals[j - 1] };
            check!(v[j] == want, "C08: contents after insert differ from Vec::insert");
        }
        Err(_) => {
            check!(n == CAP0, "C07/C08: insert failed although the reserved capacity suffices");
            check!(v.len() == n && v.as_ptr() as usize == p0 && v.capacity() == CAP0, "C07: failed insert changed the vector");
            let j: usize = kani::any();
            kani::assume(j < n);
            check!(v[j] == vals[j], "C07: failed insert changed the contents");
        }
    }
    kani::cover!(true, "END: harness ran to completion");
}

/// try_reserve / try_reserve_exact(additional), additional <= 12 (what fits the chunk or just fails), plus
/// additional >= 2^62 (must be an error, nothing changes)
fn one_reserve<St: BumpAllocatorSettings, const CAP0: usize, const FILL_AFTER: usize>()
where
    VA: BaseAllocator<St::GuaranteedAllocated>,
{
    state_u8!(St, CAP0, FILL_AFTER, bump, v, vals, n);
    // additional <= 12 symbolic; the overflowing requests are three boundary values picked by a symbolic selector (a
    // fully symbolic huge `additional` flowing through the chunk-size arithmetic of the slow path costs 30 min; the
    // full-width overflow clause is decided on ZST vectors by zst.rs and on the size arithmetic by E-pure)
    let small: usize = kani::any();
    let sel: u8 = kani::any();
    kani::assume(small <= 12 && sel < 4);
    let additional: usize = match sel {
        0 => small,
        1 => usize::MAX,
        2 => isize::MAX as usize,
        _ => (isize::MAX as usize) - 1,
    };
    let exact: bool = kani::any();
    let p0 = v.as_ptr() as usize;
    let allocated0 = bump.stats().allocated();
    let r = if exact { v.try_reserve_exact(additional) } else { v.try_reserve(additional) };
    kani::cover!(r.is_ok() && v.capacity() > CAP0, "reserve grew the vector");
    kani::cover!(r.is_ok() && v.capacity() > CAP0 && exact, "reserve_exact grew the vector");
    kani::cover!(r.is_err() && additional <= 12, "[fail] growth failed");
    kani::cover!(r.is_err() && additional > 12, "huge reserve refused");
    match r {
        Ok(()) => {
            check!(additional <= 12, "C07: a reserve that cannot be satisfied returned Ok");
            check!(v.capacity() >= n.saturating_add(additional), "C08: capacity smaller than reserve promised");
            if n.saturating_add(additional) <= CAP0 {
                check!(v.as_ptr() as usize == p0 && v.capacity() == CAP0, "C08: reserve reallocated although the capacity suffices");
                check!(bump.stats().allocated() == allocated0, "C08/C13: reserve within capacity changed the allocated byte count");
            } else if exact {
                check!(v.capacity() == n.saturating_add(additional), "C08: reserve_exact over-allocated");
            } else {
                check!(v.capacity() >= 2 * CAP0, "C08: reserve growth is not amortised");
            }
        }
        Err(_) => {
            check!(n.saturating_add(additional) > CAP0, "C07/C08: reserve failed although the capacity suffices");
            check!(v.as_ptr() as usize == p0 && v.capacity() == CAP0, "C07: failed reserve changed the vector");
            check!(bump.stats().allocated() == allocated0, "C07: failed reserve changed the allocated byte count");
        }
    }
    check!(v.len() == n, "C07/C08: reserve changed the length");
    let j: usize = kani::any();
    kani::assume(j < n);
    check!(v[j] == vals[j], "C07/C08: reserve changed the contents");
    kani::cover!(true, "END: harness ran to completion");
}

/// try_extend_from_slice_copy(&[..m]), m <= 3 / try_resize(new_len <= 8, x) / try_append([a, b])
fn one_extend<St: BumpAllocatorSettings, const CAP0: usize, const FILL_AFTER: usize, const OP: u8>()
where
    VA: BaseAllocator<St::GuaranteedAllocated>,
{
    state_u8!(St, CAP0, FILL_AFTER, bump, v, vals, n);
    // one operation per harness (all three in one query: no verdict within 30 min)
    let op: u8 = OP;
    let m: usize = kani::any();
    let p0 = v.as_ptr() as usize;
    let (r, new_len) = match op {
        0 => {
            kani::assume(m <= 3);
            let src = [vals[5], vals[6], vals[7]];
            (v.try_extend_from_slice_copy(&src[..m]), n + m)
        }
        1 => {
            kani::assume(m <= 6);
            (v.try_resize(m, vals[5]), m)
        }
        _ => {
            kani::assume(m == 2);
            (v.try_append([vals[5], vals[6]]), n + 2)
        }
    };
    kani::cover!(r.is_ok() && new_len > CAP0, "extend / resize / append with growth");
    kani::cover!(r.is_ok() && op == 1 && new_len < n, "[resize] resize shrinks the length");
    kani::cover!(r.is_err(), "[fail] growth failed");
    match r {
        Ok(()) => {
            check!(v.len() == new_len && v.capacity() >= v.len(), "C08: len/capacity after extend/resize/append");
            if new_len <= CAP0 {
                check!(v.as_ptr() as usize == p0 && v.capacity() == CAP0, "C08: buffer moved although the reserved capacity suffices");
            }
            let j: usize = kani::any();
            kani::assume(j < new_len);
            let want = if j < n {
                vals[j]
            } else {
                match op {
                    0 | 2 => vals[5 + (j - n)],
                    _ => vals[5],
                }
            };
            check!(v[j] == want, "C08: contents after extend/resize/append differ from Vec");
        }
        Err(_) => {
            check!(new_len > CAP0, "C07/C08: extend/resize/append failed although the reserved capacity suffices");
            check!(v.len() == n && v.as_ptr() as usize == p0 && v.capacity() == CAP0, "C07: failed extend/resize/append changed the vector");
            let j: usize = kani::any();
            kani::assume(j < n);
            check!(v[j] == vals[j], "C07: failed extend/resize/append changed the contents");
        }
    }
    kani::cover!(true, "END: harness ran to completion");
}

/// shrink_to_fit / shrink_to(m) / into_boxed_slice / into_fixed_vec: length and contents kept, capacity >= len,
/// the allocated byte count decreases only when the buffer is the newest allocation (C13), the position stays a
/// multiple of MIN_ALIGN (C10), and the next allocation is disjoint from the elements (C01)
fn one_shrink<St: BumpAllocatorSettings, const CAP0: usize, const FILL_AFTER: usize>()
where
    VA: BaseAllocator<St::GuaranteedAllocated>,
{
    state_u8!(St, CAP0, FILL_AFTER, bump, v, vals, n);
    let allocated0 = bump.stats().allocated();
    let op: u8 = kani::any();
    kani::assume(op < 4);
    let m: usize = kani::any();
    let v = ManuallyDrop::into_inner(v);
    let (p, len, cap) = match op {
        0 => {
            let mut v = v;
            v.shrink_to_fit();
            let r = (v.as_ptr() as usize, v.len(), v.capacity());
            core::mem::forget(v);
            r
        }
        1 => {
            let mut v = v;
            v.shrink_to(m);
            check!(v.capacity() >= m.min(CAP0), "C08: shrink_to went below the requested minimum capacity");
            let r = (v.as_ptr() as usize, v.len(), v.capacity());
            core::mem::forget(v);
            r
        }
        2 => {
            let b = v.into_boxed_slice();
            let r = (b.as_ptr() as usize, b.len(), b.len());
            core::mem::forget(b);
            r
        }
        _ => {
            let f = v.into_fixed_vec();
            let r = (f.as_ptr() as usize, f.len(), f.capacity());
            check!(f.capacity() == CAP0, "C08: into_fixed_vec changed the capacity");
            core::mem::forget(f);
            r
        }
    };
    check!(len == n && cap >= len && cap <= CAP0, "C08: shrinking changed the length or grew the capacity");
    let allocated1 = bump.stats().allocated();
    check!(allocated1 <= allocated0, "C13: shrinking a vector increased the allocated byte count");
    if FILL_AFTER > 0 {
        check!(allocated1 == allocated0, "C13: shrinking a vector that is not the newest allocation changed the allocated byte count");
    }
    if !St::SHRINKS {
        check!(allocated1 == allocated0, "C13: shrinking changed the allocated byte count although SHRINKS is off");
    }
    kani::cover!(allocated1 < allocated0, "[reclaim] shrinking gave memory back");
    kani::cover!(op == 0 && n == 2, "shrink_to_fit with 2 elements");
    kani::cover!(op == 2 && n == 1, "into_boxed_slice with 1 element");
    let cur = bump.stats().current_chunk().unwrap();
    check!(addr(cur.bump_position()) % St::MIN_ALIGN == 0, "C10: bump position is not a multiple of the minimum alignment after shrinking a vector");
    assert_stats_coherent(bump.stats(), 32);
    let w = Win::of(cur);
    let j: usize = kani::any();
    kani::assume(j < n);
    check!(unsafe { w.read(p + j) } == vals[j], "C02/C08: shrinking changed the contents");
    if let Ok(q) = bump.try_alloc_uninit::<u8>() {
        let q = q.into_raw().as_ptr() as usize;
        check!(disjoint(q, 1, p, n), "C01: allocation after shrinking overlaps the vector's elements");
    }
    kani::cover!(true, "END: harness ran to completion");
}

/// split_off(..at) / split_off(at..), then ONE follow-up on the split-off part through the real allocator; the
/// sibling keeps its contents and stays usable (C16 independence), the parts partition the original
fn one_split<St: BumpAllocatorSettings, const CAP0: usize, const FILL_AFTER: usize, const OP: u8>()
where
    VA: BaseAllocator<St::GuaranteedAllocated>,
{
    state_u8!(St, CAP0, FILL_AFTER, bump, v, vals, n);
    let at: usize = kani::any();
    kani::assume(at <= n);
    let front: bool = kani::any();
    let other = if front { v.split_off(..at) } else { v.split_off(at..) };
    let mut other = ManuallyDrop::new(other);
    {
        let (lo, hi): (&BumpVec<u8, _>, &BumpVec<u8, _>) = if front { (&*other, &*v) } else { (&*v, &*other) };
        check!(lo.len() == at && hi.len() == n - at, "C16: split_off lengths");
        check!(lo.capacity() + hi.capacity() == CAP0, "C16: capacities of the parts do not add up");
        check!(lo.capacity() >= lo.len() && hi.capacity() >= hi.len(), "C08: capacity < len after split_off");
        let (pl, ph) = (lo.as_ptr() as usize, hi.as_ptr() as usize);
        check!(lo.capacity() == 0 || hi.capacity() == 0 || pl + lo.capacity() <= ph, "C16/C01: capacity ranges of the parts overlap");
        let j: usize = kani::any();
        kani::assume(j < n);
        if j < at {
            check!(lo[j] == vals[j], "C16: front part differs");
        } else {
            check!(hi[j - at] == vals[j], "C16: back part differs");
        }
    }
    // one follow-up on `other`; `v` must keep its contents
    let keep_len = v.len();
    let keep_ptr = v.as_ptr() as usize;
    // one follow-up per harness (all four in one query: out of memory at 16 GB)
    let op: u8 = OP;
    match op {
        0 => {
            // push: grows at once when the part has no spare capacity
            let _ = other.try_push(0xA1);
        }
        1 => other.shrink_to_fit(),
        2 => unsafe { ManuallyDrop::drop(&mut other) },
        _ => {
            let b = unsafe { ManuallyDrop::take(&mut other) }.into_boxed_slice();
            core::mem::forget(b);
        }
    }
    kani::cover!(at == 2 && n == 4 && front, "follow-up on the lower half");
    kani::cover!(at == 1 && n == 3 && !front, "follow-up on the upper part");
    check!(v.len() == keep_len && v.as_ptr() as usize == keep_ptr, "C16: operating on one part changed the other part");
    let j: usize = kani::any();
    kani::assume(j < keep_len);
    let want = if front { vals[at + j] } else { vals[j] };
    check!(v[j] == want, "C16: operating on one part changed the contents of the other");
    kani::cover!(true, "END: harness ran to completion");
}

/// arena + BumpVec<D> state: ids 0..n
macro_rules! state_d {
    ($St:ty, $CAP0:expr, $FILL_AFTER:expr, $bump:ident, $v:ident, $n:ident) => {
        set_budget(1);
        let Ok($bump) = Bump::<VA, $St>::try_new() else { return };
        let $bump = ManuallyDrop::new($bump);
        set_budget(0);
        let Ok($v) = BumpVec::<D, _>::try_with_capacity_in($CAP0, &*$bump) else { return };
        #[allow(unused_mut)]
        let mut $v = ManuallyDrop::new($v);
        kani::assume($v.capacity() == $CAP0);
        let $n: usize = kani::any();
        kani::assume($n <= $CAP0);
        unsafe {
            let ids: [u8; 4] = [0, 1, 2, 3];
            core::ptr::copy_nonoverlapping(ids.as_ptr(), $v.as_mut_ptr() as *mut u8, $CAP0);
            $v.set_len($n);
        }
        if $FILL_AFTER > 0 {
            let Ok(_) = $bump.allocate(Layout::from_size_align($FILL_AFTER, 1).unwrap()) else { return };
        }
    };
}

/// C06 on the arena: a push / insert across a reallocation MOVES the elements (no drop), a failed push consumes the
/// rejected value exactly once, and dropping the vector drops every element exactly once and gives the buffer back
/// when it is the newest allocation
fn one_push_drops<St: BumpAllocatorSettings, const CAP0: usize, const FILL_AFTER: usize>()
where
    VA: BaseAllocator<St::GuaranteedAllocated>,
{
    state_d!(St, CAP0, FILL_AFTER, bump, v, n);
    let allocated_before_vec = bump.stats().allocated() - CAP0 - FILL_AFTER;
    let ins: bool = kani::any();
    let i: usize = kani::any();
    kani::assume(i <= n);
    let r = if ins { v.try_insert(i, D(9)) } else { v.try_push(D(9)) };
    check!(dropped(0) == 0 && dropped(1) == 0 && dropped(2) == 0 && dropped(3) == 0, "C06: growth dropped elements that were moved");
    kani::cover!(r.is_ok() && n == CAP0, "grew");
    kani::cover!(r.is_err(), "[fail] growth failed");
    match r {
        Ok(()) => {
            check!(dropped(9) == 0, "C06: pushed element dropped");
            check!(v.len() == n + 1, "C08: length after push");
            let j: usize = kani::any();
            kani::assume(j <= n);
            let want = if !ins { if j < n { j as u8 } else { 9 } } else if j < i { j as u8 } else if j == i { 9 } else { (j - 1) as u8 };
            check!(v[j].0 == want, "C08: contents after push/insert with instrumented elements");
        }
        Err(_) => {
            check!(dropped(9) == 1, "C06: value of a failed push lost or dropped twice");
            check!(v.len() == n, "C07: failed push changed the length");
        }
    }
    let ok = r.is_ok();
    unsafe { ManuallyDrop::drop(&mut v) };
    check!(dropped(0) == (n > 0) as u8 && dropped(1) == (n > 1) as u8 && dropped(2) == (n > 2) as u8 && dropped(3) == (n > 3) as u8, "C06: elements not dropped exactly once after the vector was dropped");
    check!(dropped(9) == 1, "C06: pushed element not dropped exactly once");
    if FILL_AFTER == 0 && St::DEALLOCATES && St::UP && ok {
        check!(bump.stats().allocated() == allocated_before_vec, "C13: dropping the newest vector did not give its buffer back");
    }
    kani::cover!(true, "END: harness ran to completion");
}

/// C06 on the arena: into_iter consumed `take` from the front / `take_back` from the back, then dropped: yielded
/// values belong to the caller, the rest is dropped exactly once with the iterator
fn one_into_iter<St: BumpAllocatorSettings, const CAP0: usize, const FILL_AFTER: usize>()
where
    VA: BaseAllocator<St::GuaranteedAllocated>,
{
    state_d!(St, CAP0, FILL_AFTER, bump, v, n);
    let take: bool = kani::any();
    let take_back: bool = kani::any();
    let v = ManuallyDrop::into_inner(v);
    let mut it = v.into_iter();
    check!(it.len() == n, "C08: into_iter reports the wrong length");
    let a = if take { it.next() } else { None };
    let b = if take_back { it.next_back() } else { None };
    if let Some(x) = &a {
        check!(x.0 == 0 && n > 0, "C08: into_iter yielded the wrong first element");
    } else {
        check!(!take || n == 0, "C08: into_iter ended early");
    }
    if let Some(x) = &b {
        check!(x.0 as usize == n - 1 && n > (a.is_some() as usize), "C08: into_iter yielded the wrong last element");
    } else {
        check!(!take_back || n <= (a.is_some() as usize), "C08: into_iter ended early at the back");
    }
    let (ga, gb) = (a.is_some(), b.is_some());
    core::mem::forget(a);
    core::mem::forget(b);
    drop(it);
    kani::cover!(ga && gb && n == 4, "both ends consumed");
    // id 0 was handed out from the front (ga), id n-1 from the back (gb); both were forgotten by the harness: not
    // dropped. Everything else was dropped exactly once with the iterator.
    let want = |i: usize| (i < n && !(ga && i == 0) && !(gb && i + 1 == n)) as u8;
    check!(dropped(0) == want(0), "C06: into_iter drop accounting (id 0)");
    check!(dropped(1) == want(1), "C06: into_iter drop accounting (id 1)");
    check!(dropped(2) == want(2), "C06: into_iter drop accounting (id 2)");
    check!(dropped(3) == want(3), "C06: into_iter drop accounting (id 3)");
    kani::cover!(true, "END: harness ran to completion");
}

/// C08 "no reallocation while the promised capacity suffices" for BumpVec::splice with an exact fit (capacity 4, 2
/// elements, one replaced by three => 4 elements): concrete shape, symbolic values
fn splice_exact_fit<St: BumpAllocatorSettings>()
where
    VA: BaseAllocator<St::GuaranteedAllocated>,
{
    set_budget(1);
    let Ok(bump) = Bump::<VA, St>::try_new() else { return };
    let bump = ManuallyDrop::new(bump);
    set_budget(0);
    let Ok(v) = BumpVec::<u8, _>::try_with_capacity_in(4, &*bump) else { return };
    let mut v = ManuallyDrop::new(v);
    kani::assume(v.capacity() == 4);
    let vals: [u8; 5] = kani::any();
    unsafe {
        core::ptr::copy_nonoverlapping(vals.as_ptr(), v.as_mut_ptr(), 2);
        v.set_len(2);
    }
    let p0 = v.as_ptr() as usize;
    let allocated0 = bump.stats().allocated();
    {
        let mut removed = v.splice(0..1, [vals[2], vals[3], vals[4]]);
        check!(removed.next() == Some(vals[0]), "C08: splice yielded the wrong removed element");
        check!(removed.next().is_none(), "C08: splice yielded more than the removed range");
    }
    check!(v.len() == 4, "C08: length after splice differs from Vec::splice");
    check!(v[0] == vals[2] && v[1] == vals[3] && v[2] == vals[4] && v[3] == vals[1], "C08: contents after splice differ from Vec::splice");
    check!(v.capacity() == 4 && v.as_ptr() as usize == p0, "C08: splice reallocated although the result fits the promised capacity");
    check!(bump.stats().allocated() == allocated0, "C08: splice consumed arena memory although the result fits the promised capacity");
    kani::cover!(true, "END: harness ran to completion");
}

// No copy stub here: BumpVec grows and shrinks through the allocator's byte-level grow/shrink and all elements are one
// byte wide (u8 copies, which CBMC models correctly).
macro_rules! h {
    ($name:ident, $u:literal, $body:expr) => {
        #[kani::proof]
        #[kani::unwind($u)]
        #[kani::stub(std::alloc::handle_alloc_error, crate::stubs::hae_stub)]
        fn $name() {
            $body;
        }
    };
}
h!(bvec_push_up1_newest, 3, one_push::<S<1, true>, 4, 0>());
h!(bvec_push_up1_blocked, 3, one_push::<S<1, true>, 2, 1>());
h!(bvec_push_down1_newest, 3, one_push::<S<1, false>, 4, 0>());
h!(bvec_push_up1_full, 3, one_push::<S<1, true>, 4, 9>());
h!(bvec_insert_up1_newest, 3, one_insert::<S<1, true>, 4, 0>());
h!(bvec_insert_down1_blocked, 3, one_insert::<S<1, false>, 2, 1>());
h!(bvec_reserve_up1_newest, 3, one_reserve::<S<1, true>, 3, 0>());
h!(bvec_reserve_down1_newest, 3, one_reserve::<S<1, false>, 3, 0>());
h!(bvec_reserve_up4_blocked, 3, one_reserve::<S<4, true>, 2, 1>());
h!(bvec_extend_up1_newest, 3, one_extend::<S<1, true>, 4, 0, 0>());
h!(bvec_resize_up1_newest, 8, one_extend::<S<1, true>, 4, 0, 1>());
h!(bvec_append_up1_newest, 3, one_extend::<S<1, true>, 4, 0, 2>());
h!(bvec_extend_down1_blocked, 3, one_extend::<S<1, false>, 2, 1, 0>());
h!(bvec_resize_down1_blocked, 8, one_extend::<S<1, false>, 2, 1, 1>());
h!(bvec_shrink_up1_newest, 5, one_shrink::<S<1, true>, 4, 0>());
h!(bvec_shrink_down8_newest, 5, one_shrink::<S<8, false>, 7, 0>());
h!(bvec_shrink_up4_newest, 5, one_shrink::<S<4, true>, 7, 0>());
h!(bvec_shrink_down1_blocked, 5, one_shrink::<S<1, false>, 4, 3>());
h!(bvec_shrink_up1_set_noshrink, 5, one_shrink::<S<1, true, true, true, false>, 4, 0>());
h!(bvec_split_push_up1, 3, one_split::<S<1, true>, 4, 0, 0>());
h!(bvec_split_shrink_up1, 3, one_split::<S<1, true>, 4, 0, 1>());
h!(bvec_split_drop_up1, 3, one_split::<S<1, true>, 4, 0, 2>());
h!(bvec_split_box_down1, 3, one_split::<S<1, false>, 4, 0, 3>());
h!(bvec_split_push_down1, 3, one_split::<S<1, false>, 4, 0, 0>());
h!(bvec_split_drop_up8, 3, one_split::<S<8, true>, 8, 0, 2>());
h!(bvec_split_push_up8, 3, one_split::<S<8, true>, 8, 0, 0>());
h!(bvec_push_drops_up1_newest, 5, one_push_drops::<S<1, true>, 2, 0>());
h!(bvec_push_drops_down1_blocked, 5, one_push_drops::<S<1, false>, 2, 1>());
h!(bvec_push_drops_up1_full, 5, one_push_drops::<S<1, true>, 2, 12>());
h!(bvec_into_iter_up1, 6, one_into_iter::<S<1, true>, 4, 0>());
h!(bvec_splice_exact_fit_up1, 6, splice_exact_fit::<S<1, true>>());
h!(bvec_splice_exact_fit_down1, 6, splice_exact_fit::<S<1, false>>());
