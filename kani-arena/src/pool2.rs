//! C19, reset clause: "reset / reset_to_start / drop of the pool release or rewind every arena exactly as the
//! single-arena operations do" -- for an arena that owns SEVERAL chunks, used or rewound (second-round seeded change:
//! `BumpPool::reset` skipping arenas whose `allocated()` is 0).
use crate::check;
use crate::common::*;
use bump_scope::alloc::Allocator;
use bump_scope::BumpPool;
use core::alloc::Layout;

type St = S<1, true>;

/// one guard; its arena grows a second chunk (112 B) either inside a scope (=> rewound, allocated() == 0 afterwards) or
/// by a plain allocation; the guard goes back; END 1: pool.reset_to_start(), 2: pool.reset(), 3: drop(pool)
fn pool_multi_chunk<const END: u8>() {
    let mut pool = core::mem::ManuallyDrop::new(BumpPool::<VA, St>::new_in(VA));
    pool.bumps().reserve(2);
    let rewound: bool = kani::any();
    {
        set_budget(1);
        let Ok(mut g) = pool.try_get() else { return };
        set_budget(1);
        let big = Layout::from_size_align(24, 1).unwrap();
        if rewound {
            g.scoped(|s| {
                let _ = s.allocate(big);
            });
        } else {
            let _ = g.allocate(big);
        }
        set_budget(0);
        if g.stats().count() != 2 {
            return;
        }
        kani::cover!(rewound && g.stats().allocated() == 0, "arena with two chunks, rewound to its start");
        kani::cover!(!rewound && g.stats().allocated() > 0, "arena with two chunks, in use");
        drop(g);
    }
    check!(released() == 0 && grants() == 2, "C19: returning a guard released a chunk");
    check!(pool.bumps().len() == 1, "C19: arenas lost or duplicated in the pool");
    match END {
        1 => {
            pool.reset_to_start();
            check!(released() == 0, "C19/C05: reset_to_start of the pool released a chunk");
            check!(pool.bumps()[0].stats().allocated() == 0 && pool.bumps()[0].stats().count() == 2, "C19/C03: reset_to_start of the pool did not rewind the arena to its start keeping its chunks");
        }
        2 => {
            pool.reset();
            // exactly what Bump::reset does: every chunk but the largest goes back, the largest is empty and current
            check!(released() == 1 && live_grants() == 1, "C19/C05: reset of the pool did not release all but the largest chunk of an arena");
            let s = pool.bumps()[0].stats();
            check!(s.count() == 1 && s.allocated() == 0 && s.size() == 112, "C19/C05: after reset of the pool an arena is not left with exactly its largest chunk, empty");
        }
        _ => {
            drop(core::mem::ManuallyDrop::into_inner(pool));
            check!(live_grants() == 0 && released() == 2, "C19/C05: dropping the pool did not return every chunk exactly once");
        }
    }
    kani::cover!(true, "END: harness ran to completion");
}

macro_rules! pool2_harness {
    ($name:ident, $end:literal) => {
        #[kani::proof]
        #[kani::unwind(7)]
        #[kani::stub(std::alloc::handle_alloc_error, crate::stubs::hae_stub)]
        #[kani::stub(std::sync::Mutex::lock, crate::pool::lock_stub)]
        fn $name() {
            pool_multi_chunk::<$end>();
        }
    };
}
pool2_harness!(pool_multi_chunk_reset, 2);
pool2_harness!(pool_multi_chunk_reset_to_start, 1);
pool2_harness!(pool_multi_chunk_drop, 3);
