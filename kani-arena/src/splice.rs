//! C08 "no reallocation while the promised capacity suffices" for `BumpVec::splice` with an exact fit (second-round
//! seeded change: `buf_reserve` growing when `len + additional == capacity`). Concrete shape (capacity 4, 2 elements,
//! one replaced by three => 4 elements), symbolic values.
use crate::check;
use crate::common::*;
use bump_scope::{Bump, BumpVec};

fn splice_exact_fit<const UP: bool>() {
    set_budget(1);
    let Ok(bump) = Bump::<VA, S<1, UP>>::try_new() else { return };
    let bump = core::mem::ManuallyDrop::new(bump);
    set_budget(0);
    let Ok(v) = BumpVec::<u8, _>::try_with_capacity_in(4, &*bump) else { return };
    let mut v = core::mem::ManuallyDrop::new(v);
    let vals: [u8; 5] = kani::any();
    if v.try_push(vals[0]).is_err() || v.try_push(vals[1]).is_err() {
        return;
    }
    let cap0 = v.capacity();
    kani::assume(cap0 == 4);
    let p0 = v.as_ptr() as usize;
    let allocated0 = bump.stats().allocated();
    let calls0 = calls();
    {
        let mut removed = v.splice(0..1, [vals[2], vals[3], vals[4]]);
        check!(removed.next() == Some(vals[0]), "C08: splice yielded the wrong removed element");
        check!(removed.next().is_none(), "C08: splice yielded more than the removed range");
    }
    check!(v.len() == 4, "C08: length after splice differs from Vec::splice");
    check!(v[0] == vals[2] && v[1] == vals[3] && v[2] == vals[4] && v[3] == vals[1], "C08: contents after splice differ from Vec::splice");
    check!(v.capacity() == cap0 && v.as_ptr() as usize == p0, "C08: splice reallocated although the result fits the promised capacity");
    check!(bump.stats().allocated() == allocated0 && calls() == calls0, "C08: splice consumed arena memory although the result fits the promised capacity");
    kani::cover!(true, "END: harness ran to completion");
}

#[kani::proof]
#[kani::unwind(6)]
#[kani::stub(std::alloc::handle_alloc_error, crate::stubs::hae_stub)]
fn splice_exact_fit_up1() {
    splice_exact_fit::<true>();
}

#[kani::proof]
#[kani::unwind(6)]
#[kani::stub(std::alloc::handle_alloc_error, crate::stubs::hae_stub)]
fn splice_exact_fit_down1() {
    splice_exact_fit::<false>();
}
