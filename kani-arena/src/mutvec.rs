//! C15 — exclusive-borrow collections use the free space without moving the bump pointer; finalising advances it by
//! the contents (+ padding) and yields exactly the pushed elements (reversed for the rev variant).
//! Shapes are concrete per harness (filler size, reserved capacity, number of pushes => whether and where the fill
//! outgrows the 16-byte chunk); element values are symbolic. The budget is granted just in time (DESIGN.md 2.5).
use crate::check;
use crate::common::*;
use bump_scope::alloc::Allocator;
use bump_scope::settings::BumpAllocatorSettings;
use bump_scope::{BaseAllocator, Bump, MutBumpVec, MutBumpVecRev};
use core::alloc::Layout;

fn chunk1_pos<St: BumpAllocatorSettings>(bump: &Bump<VA, St>) -> usize
where
    VA: BaseAllocator<St::GuaranteedAllocated>,
{
    let mut it = bump.stats().small_to_big();
    addr(it.next().unwrap().bump_position())
}

macro_rules! mutvec_body {
    ($fname:ident, $Vec:ident, $rev:expr) => {
        /// FILL: bytes allocated before; CAP0: capacity reserved at creation; K: pushes; GROW_AT: index of the push that
        /// is granted budget (K: none); FINAL: finalise (true) or drop (false)
        fn $fname<T, St, const FILL: usize, const CAP0: usize, const K: usize, const GROW_AT: usize, const FINAL: bool>(create_budget: usize)
        where
            T: Copy + PartialEq + kani::Arbitrary,
            St: BumpAllocatorSettings,
            VA: BaseAllocator<St::GuaranteedAllocated>,
        {
            set_budget(1);
            let Ok(mut bump) = Bump::<VA, St>::try_new() else { return };
    // never run Drop for Bump on early-return paths (it walks the chunk list and calls the base allocator: pure cost)
    let mut bump = core::mem::ManuallyDrop::new(bump);
            set_budget(0);
            if FILL > 0 {
                let Ok(_) = bump.allocate(Layout::from_size_align(FILL, 1).unwrap()) else { return };
            }
            let pos1 = chunk1_pos(&*bump);
            let alloc0 = bump.stats().allocated();
            let chunk_cur0 = addr(bump.stats().current_chunk().unwrap().chunk_start());
            let vals: [T; 5] = kani::any();
            set_budget(create_budget);
            let Ok(mut v) = $Vec::<T, _>::try_with_capacity_in(CAP0, &mut *bump) else { return };
            set_budget(0);
            check!(v.capacity() >= CAP0, "C08: capacity smaller than what with_capacity promised");
            let mut k = 0;
            while k < 5 {
                if k < K {
                    if k == GROW_AT {
                        set_budget(1);
                    }
                    let r = v.try_push(vals[k]);
                    set_budget(0);
                    if r.is_err() {
                        return;
                    }
                    // during filling the position of the original chunk does not move
                    let s = v.allocator_stats();
                    let mut it = s.small_to_big();
                    check!(addr(it.next().unwrap().bump_position()) == pos1, "C15: bump position moved while an exclusive-borrow collection was being filled");
                    check!(v.len() == k + 1 && v.capacity() >= v.len(), "C08: len/capacity while filling");
                }
                k += 1;
            }
            // contents: pushed order, or reversed for the rev variant
            let mut j = 0;
            while j < 5 {
                if j < K {
                    let want = if $rev { vals[K - 1 - j] } else { vals[j] };
                    check!(v[j] == want, "C15/C08: contents differ from the pushed elements");
                }
                j += 1;
            }
            let chunks = v.allocator_stats().count();
            kani::cover!(chunks == 2, "[switch] filling continued in a bigger chunk");
            kani::cover!(chunks == 1, "[stay] filling stayed in the first chunk");
            if FINAL {
                let b = v.into_boxed_slice();
                let (p, n) = (b.as_ptr() as usize, b.len());
                check!(n == K, "C15: finalised slice has the wrong length");
                let mut j = 0;
                while j < 5 {
                    if j < K {
                        let want = if $rev { vals[K - 1 - j] } else { vals[j] };
                        check!(b[j] == want, "C15: finalised slice differs from the pushed elements");
                    }
                    j += 1;
                }
                core::mem::forget(b);
                let sz = core::mem::size_of::<T>();
                let al = core::mem::align_of::<T>();
                check!(p % al == 0, "C15/C01: finalised slice misaligned");
                // the position advanced by the contents plus at most alignment padding
                let cur = bump.stats().current_chunk().unwrap();
                // in the chunk the slice ended up in: same chunk => relative to what was allocated before; a later chunk was empty
                let grown = if addr(cur.chunk_start()) == chunk_cur0 { cur.allocated() - alloc0 } else { cur.allocated() };
                let pad_max = (al - 1) + (St::MIN_ALIGN - 1);
                check!(grown >= K * sz && grown <= K * sz + pad_max, "C15: finalising advanced the position by more than contents + padding");
                check!(addr(cur.bump_position()) % St::MIN_ALIGN == 0, "C10: position not min-aligned after finalising");
                // the block lies in the allocated part of the current chunk
                let (cs, ce) = (addr(cur.content_start()), addr(cur.content_end()));
                check!(p >= cs && p + K * sz <= ce, "C15/C01: finalised slice outside the current chunk");
            } else {
                drop(v);
                check!(chunk1_pos(&*bump) == pos1, "C15: dropping an exclusive-borrow collection moved the bump position");
                let cur = bump.stats().current_chunk().unwrap();
                if addr(cur.chunk_start()) != chunk_cur0 {
                    check!(cur.allocated() == 0, "C15: after dropping the collection the current chunk is a later one that is not empty");
                } else {
                    check!(bump.stats().allocated() == alloc0, "C15: dropping the collection changed the allocated byte count");
                }
            }
                    kani::cover!(true, "END: harness ran to completion");
        }
    };
}
mutvec_body!(mutvec, MutBumpVec, false);
mutvec_body!(mutvec_rev, MutBumpVecRev, true);

// `h!`: byte elements (no typed multi-byte copy anywhere). `hc!`: multi-byte elements whose growth copies typed
// elements with a symbolic count (needs the copy stub, DESIGN.md 2.8).
macro_rules! h {
    ($name:ident, $body:expr) => {
        #[kani::proof]
        #[kani::unwind(8)]
        #[kani::stub(std::alloc::handle_alloc_error, crate::stubs::hae_stub)]
        fn $name() {
            $body;
        }
    };
}
macro_rules! hc {
    ($name:ident, $body:expr) => {
        #[kani::proof]
        #[kani::unwind(8)]
        #[kani::stub(std::alloc::handle_alloc_error, crate::stubs::hae_stub)]
        #[kani::stub(core::ptr::copy, crate::stubs::copy_stub)]
        #[kani::stub(core::ptr::copy_nonoverlapping, crate::stubs::copy_stub)]
        fn $name() {
            $body;
        }
    };
}
// stays in the first chunk (filler 4 B, 3 pushes of u8/u16), finalise and drop
h!(mutvec_u8_up1_stay_final, mutvec::<u8, S<1, true>, 4, 3, 3, 9, true>(0));
h!(mutvec_u8_down1_stay_final, mutvec::<u8, S<1, false>, 4, 3, 3, 9, true>(0));
hc!(mutvec_u16_up4_stay_final, mutvec::<u16, S<4, true>, 3, 2, 3, 9, true>(0));
hc!(mutvec_u32_down1_stay_drop, mutvec::<u32, S<1, false>, 2, 2, 2, 9, false>(0));
h!(mutvec_u8_up1_stay_drop, mutvec::<u8, S<1, true>, 4, 3, 3, 9, false>(0));
// creation does not fit (filler 14 B, capacity 3 x u16 = 6 B > 2 B left): the vector starts in chunk 2
hc!(mutvec_u16_up1_switch_final, mutvec::<u16, S<1, true>, 14, 3, 3, 9, true>(1));
hc!(mutvec_u16_down1_switch_drop, mutvec::<u16, S<1, false>, 14, 3, 3, 9, false>(1));
// growth by copy: 12 B filler, capacity 2 x u16 fits (4 B), the 3rd push re-prepares in chunk 2 and copies
hc!(mutvec_u16_up1_grow_final, mutvec::<u16, S<1, true>, 12, 2, 3, 2, true>(0));
hc!(mutvec_u16_down1_grow_final, mutvec::<u16, S<1, false>, 12, 2, 3, 2, true>(0));
h!(mutvec_u8_up1_grow_drop, mutvec::<u8, S<1, true>, 14, 2, 3, 2, false>(0));
// reverse vector
h!(mutvecrev_u8_up1_stay_final, mutvec_rev::<u8, S<1, true>, 4, 3, 3, 9, true>(0));
hc!(mutvecrev_u16_down1_stay_final, mutvec_rev::<u16, S<1, false>, 4, 3, 3, 9, true>(0));
hc!(mutvecrev_u16_up1_grow_final, mutvec_rev::<u16, S<1, true>, 12, 2, 3, 2, true>(0));
h!(mutvecrev_u8_down4_grow_drop, mutvec_rev::<u8, S<4, false>, 14, 2, 3, 2, false>(0));
hc!(mutvecrev_u32_up1_switch_final, mutvec_rev::<u32, S<1, true>, 14, 2, 2, 9, true>(1));
