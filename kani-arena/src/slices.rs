//! Typed slice entry points of the allocator without a collection on top: `try_allocate_slice` + `shrink_slice`
//! (the path BumpVec::shrink_to_fit / into_boxed_slice / BumpString::into_str take). Cheap replacement for the
//! BumpVec-level harnesses of vecs.rs, which do not finish within the machine's budget.
use crate::check;
use crate::common::*;
use bump_scope::alloc::Allocator;
use bump_scope::settings::BumpAllocatorSettings;
use bump_scope::traits::{BumpAllocatorCore, BumpAllocatorCoreScope, BumpAllocatorTyped};
use bump_scope::{BaseAllocator, Bump};
use core::ptr::NonNull;


/// C10 / C01 / C02 / C13: shrinking the newest slice keeps the position a multiple of MIN_ALIGN, keeps the surviving
/// prefix, never decreases allocated() when shrinking is off, and the next allocation does not overlap the slice
fn shrink_slice_body<St: BumpAllocatorSettings, const CAP: usize>()
where
    VA: BaseAllocator<St::GuaranteedAllocated>,
{
    set_budget(1);
    let Ok(bump) = Bump::<VA, St>::try_new() else { return };
    let bump = core::mem::ManuallyDrop::new(bump);
    set_budget(0);
    let w = Win::of(bump.stats().current_chunk().unwrap());
    let lf = any_layout(4, 2);
    let Ok(_) = bump.allocate(lf) else { return };
    let Ok(p) = bump.try_allocate_slice::<u8>(CAP) else { return };
    let v: u8 = kani::any();
    let i: usize = kani::any();
    kani::assume(i < CAP);
    unsafe { w.write(addr(p) + i, v) };
    let allocated0 = bump.stats().allocated();
    let new_len: usize = kani::any();
    kani::assume(new_len <= CAP);
    let r = unsafe { bump.shrink_slice(p, CAP, new_len) };
    let q = match r {
        Some(q) => q,
        None => p,
    };
    kani::cover!(r.is_some() && addr(q) != addr(p), "[moves] the shrunk slice moved (downwards)");
    kani::cover!(r.is_some() && new_len == 2, "[some] shrunk to two elements");
    let cur = bump.stats().current_chunk().unwrap();
    check!(addr(cur.bump_position()) % St::MIN_ALIGN == 0, "C10: bump position is not a multiple of the minimum alignment after shrink_slice");
    check!(addr(q) >= addr(cur.content_start()) && addr(q) + new_len <= addr(cur.content_end()), "C01: shrunk slice outside the chunk");
    if i < new_len {
        check!(unsafe { w.read(addr(q) + i) } == v, "C02: shrink_slice lost the surviving prefix");
    }
    if !St::SHRINKS {
        check!(bump.stats().allocated() >= allocated0, "C13: shrink_slice decreased the allocated byte count although shrinking is off");
        check!(r.is_none() || addr(q) == addr(p), "C13: shrink_slice moved the slice although shrinking is off");
    }
    if let Ok(n) = bump.try_allocate_slice::<u8>(1) {
        check!(disjoint(addr(n), 1, addr(q), new_len), "C01: allocation after shrink_slice overlaps the slice");
        kani::cover!(true, "allocated after the shrink");
    }
    kani::cover!(true, "END: harness ran to completion");
}

/// C17: the typed shrink_slice of `&Bump` and the one of `&dyn BumpAllocatorCore` have the same effect
fn shrink_slice_typed_vs_dyn<St: BumpAllocatorSettings, const CAP: usize>()
where
    VA: BaseAllocator<St::GuaranteedAllocated>,
{
    set_budget(2);
    let Ok(x) = Bump::<VA, St>::try_new() else { return };
    let x = core::mem::ManuallyDrop::new(x);
    let Ok(y) = Bump::<VA, St>::try_new() else { return };
    let y = core::mem::ManuallyDrop::new(y);
    set_budget(0);
    let lf = any_layout(4, 2);
    let (fx, fy) = (x.allocate(lf).is_ok(), y.allocate(lf).is_ok());
    check!(fx == fy, "C17: identical arenas disagree on the filler");
    let dy: &dyn BumpAllocatorCore = &*y;
    let Ok(px) = x.try_allocate_slice::<u8>(CAP) else { return };
    let Ok(py) = dy.try_allocate_slice::<u8>(CAP) else { return };
    let off = |b: &Bump<VA, St>, p: NonNull<u8>| addr(p).wrapping_sub(addr(b.stats().current_chunk().unwrap().chunk_start()));
    check!(off(&x, px) == off(&y, py), "C17: typed and dyn try_allocate_slice returned different offsets");
    let new_len: usize = kani::any();
    kani::assume(new_len <= CAP);
    let rx = unsafe { x.shrink_slice(px, CAP, new_len) };
    let ry = unsafe { dy.shrink_slice(py, CAP, new_len) };
    kani::cover!(rx.is_some() && new_len == 3, "[some] shrunk to three elements through both entry points");
    check!(rx.is_some() == ry.is_some(), "C17: typed and dyn shrink_slice disagree on whether the slice was shrunk");
    if let (Some(a), Some(b)) = (rx, ry) {
        check!(off(&x, a) == off(&y, b), "C17: typed and dyn shrink_slice returned different offsets");
    }
    check!(x.stats().allocated() == y.stats().allocated(), "C17: typed and dyn shrink_slice left different allocated byte counts");
    kani::cover!(true, "END: harness ran to completion");
}

macro_rules! h {
    ($name:ident, $body:expr) => {
        #[kani::proof]
        #[kani::unwind(6)]
        #[kani::stub(std::alloc::handle_alloc_error, crate::stubs::hae_stub)]
        fn $name() {
            $body;
        }
    };
}
// upwards a slice is the newest allocation only if its size is a multiple of MIN_ALIGN: capacity 8 there, 7 elsewhere
h!(slice_shrink_down8, shrink_slice_body::<S<8, false>, 7>());
h!(slice_shrink_up4, shrink_slice_body::<S<4, true>, 8>());
h!(slice_shrink_down1, shrink_slice_body::<S<1, false>, 7>());
h!(slice_shrink_down4_set_noshrink, shrink_slice_body::<S<4, false, true, true, false>, 7>());
h!(slice_shrink_typed_vs_dyn_up1, shrink_slice_typed_vs_dyn::<S<1, true>, 7>());
h!(slice_shrink_typed_vs_dyn_nodealloc_up1, shrink_slice_typed_vs_dyn::<S<1, true, true, false, true>, 7>());
h!(slice_shrink_typed_vs_dyn_nodealloc_down4, shrink_slice_typed_vs_dyn::<S<4, false, true, false, true>, 7>());


// ------------------------------------------------------------------------------------------------
// C13 through the TYPED deallocation entry point: BumpAllocatorTyped::dealloc(BumpBox) on the handle reclaims the
// newest block; through WithoutDealloc (in any nesting with WithoutShrink, by value and by reference) it never changes
// the allocated byte count (fourth-round seeded change: an explicit forward of `dealloc` to the inner allocator).
// ------------------------------------------------------------------------------------------------
fn typed_dealloc_body<const UP: bool, const MA: usize>()
where
    bump_scope::settings::MinimumAlignment<MA>: bump_scope::settings::SupportedMinimumAlignment,
{
    use bump_scope::{BumpBox, WithoutDealloc, WithoutShrink};
    set_budget(1);
    let Ok(bump) = Bump::<VA, S<MA, UP>>::try_new() else { return };
    let bump = core::mem::ManuallyDrop::new(bump);
    set_budget(0);
    let w = Win::of(bump.stats().current_chunk().unwrap());
    let lf = any_layout(4, 2);
    let Ok(f) = bump.allocate(lf) else { return };
    let f = f.cast::<u8>();
    let (vf, jf): (u8, usize) = (kani::any(), kani::any());
    kani::assume(lf.size() > 0 && jf < lf.size());
    unsafe { w.write(addr(f) + jf, vf) };
    let Ok(p) = bump.try_allocate_sized::<[u8; 4]>() else { return };
    unsafe { p.as_ptr().write([7u8; 4]) };
    let boxed: BumpBox<'_, [u8; 4]> = unsafe { BumpBox::from_raw(p) };
    let before = bump.stats().allocated();
    let pos_before = addr(bump.stats().current_chunk().unwrap().bump_position());
    let entry: u8 = kani::any();
    kani::assume(entry < 7);
    let b: &Bump<VA, S<MA, UP>> = &*bump;
    match entry {
        0 => b.dealloc(boxed),
        1 => WithoutShrink(b).dealloc(boxed),
        2 => WithoutDealloc(b).dealloc(boxed),
        3 => (&WithoutDealloc(b)).dealloc(boxed),
        4 => WithoutShrink(WithoutDealloc(b)).dealloc(boxed),
        5 => WithoutDealloc(WithoutShrink(b)).dealloc(boxed),
        _ => unsafe { WithoutDealloc(b).deallocate(p.cast(), core::alloc::Layout::new::<[u8; 4]>()) },
    }
    let after = bump.stats().allocated();
    if entry >= 2 {
        check!(after == before, "C13: a deallocation through WithoutDealloc changed the allocated byte count");
        check!(addr(bump.stats().current_chunk().unwrap().bump_position()) == pos_before, "C13: a deallocation through WithoutDealloc moved the bump position");
    } else {
        check!(after <= before, "C13: deallocating increased the allocated byte count");
        if 4 % MA == 0 {
            // size a multiple of the minimum alignment: the newest block is reclaimed and its address reused
            check!(after + 4 == before, "C13: deallocating the newest block (size a multiple of MIN_ALIGN) through the typed entry point did not reclaim it");
            let Ok(q) = bump.try_allocate_sized::<[u8; 4]>() else { return };
            check!(addr(q.cast()) == addr(p.cast()), "C13: the address of the reclaimed newest block was not reused for the same layout");
        }
    }
    kani::cover!(entry == 0 && after < before, "reclaimed through the handle");
    kani::cover!(entry == 4, "nested wrappers");
    check!(unsafe { w.read(addr(f) + jf) } == vf, "C02/C13: an earlier block changed");
    kani::cover!(true, "END: harness ran to completion");
}

macro_rules! typed_dealloc_harness {
    ($name:ident, $up:literal, $ma:literal) => {
        #[kani::proof]
        #[kani::unwind(6)]
        #[kani::stub(std::alloc::handle_alloc_error, crate::stubs::hae_stub)]
        fn $name() {
            typed_dealloc_body::<$up, $ma>();
        }
    };
}
typed_dealloc_harness!(typed_dealloc_wrappers_up1, true, 1);
typed_dealloc_harness!(typed_dealloc_wrappers_down4, false, 4);

// ------------------------------------------------------------------------------------------------
// C01 "split-off parts of a block count as separate live blocks" / C16 independence at the allocator level: a block of
// LEN bytes is split at a symbolic point k into lo = [0, k) and hi = [k, LEN); ONE operation on one part (symbolic
// choice of the part and of the operation: deallocate + allocate, grow, shrink, typed shrink_slice + allocate); the
// OTHER part keeps its bytes and is never overlapped. With MIN_ALIGN 8 a part may end inside the other part's
// min-align padding (third-round change "is_last rounds up to MIN_ALIGN", fourth-round change in the typed
// shrink_slice).
// ------------------------------------------------------------------------------------------------
fn split_parts_body<const UP: bool, const MA: usize, const LEN: usize>()
where
    bump_scope::settings::MinimumAlignment<MA>: bump_scope::settings::SupportedMinimumAlignment,
{
    set_budget(1);
    let Ok(bump) = Bump::<VA, S<MA, UP>>::try_new() else { return };
    let bump = core::mem::ManuallyDrop::new(bump);
    set_budget(0);
    let w = Win::of(bump.stats().current_chunk().unwrap());
    let Ok(p) = bump.try_allocate_slice::<u8>(LEN) else { return };
    let base = addr(p);
    let k: usize = kani::any();
    kani::assume(k >= 1 && k < LEN);
    let on_lo: bool = kani::any();
    // the part operated on / the part that must stay untouched
    let (tp, tl, op_, ol) = if on_lo { (base, k, base + k, LEN - k) } else { (base + k, LEN - k, base, k) };
    let (vo, jo, vt, jt): (u8, usize, u8, usize) = (kani::any(), kani::any(), kani::any(), kani::any());
    kani::assume(jo < ol && jt < tl);
    unsafe {
        w.write(op_ + jo, vo);
        w.write(tp + jt, vt);
    }
    let tptr = unsafe { p.add(tp - base) };
    let lt = core::alloc::Layout::from_size_align(tl, 1).unwrap();
    let op: u8 = kani::any();
    kani::assume(op < 4);
    let ln = any_layout(8, 3);
    let mut got: Option<(usize, usize)> = None;
    match op {
        0 => {
            unsafe { bump.deallocate(tptr, lt) };
            if let Ok(n) = bump.allocate(ln) {
                got = Some((addr(n.cast()), ln.size()));
            }
        }
        1 => {
            kani::assume(ln.size() >= tl && ln.align() == 1);
            if let Ok(n) = unsafe { bump.grow(tptr, lt, ln) } {
                let n = addr(n.cast());
                got = Some((n, ln.size()));
                if w.holds(n + jt) {
                    check!(unsafe { w.read(n + jt) } == vt, "C02: contents of the grown part were not preserved");
                }
            }
        }
        2 => {
            kani::assume(ln.size() <= tl && ln.align() == 1);
            if let Ok(n) = unsafe { bump.shrink(tptr, lt, ln) } {
                got = Some((addr(n.cast()), ln.size()));
            }
        }
        _ => {
            let m: usize = kani::any();
            kani::assume(m <= tl);
            let q = unsafe { bump.shrink_slice(tptr, tl, m) }.unwrap_or(tptr);
            check!(disjoint(addr(q), m, op_, ol), "C16/C01: the shrunk part overlaps the other part");
            if let Ok(n) = bump.allocate(ln) {
                got = Some((addr(n.cast()), ln.size()));
            }
        }
    }
    check!(unsafe { w.read(op_ + jo) } == vo, "C16/C02: an operation on one part of a split block changed the other part");
    if let Some((n, nl)) = got {
        kani::cover!(op == 0, "deallocate + allocate on a part returned a block");
        kani::cover!(op == 1, "grow of a part returned a block");
        kani::cover!(op == 3, "allocation after the typed shrink of a part returned a block");
        check!(disjoint(n, nl, op_, ol), "C01/C16: a block handed out after an operation on one part of a split block overlaps the other (live) part");
        if nl > 0 && w.holds(n) {
            unsafe { w.write(n, !vo) };
            check!(unsafe { w.read(op_ + jo) } == vo, "C01/C16: writing to the new block changed the other part of the split block");
        }
    }
    let pos = addr(bump.stats().current_chunk().unwrap().bump_position());
    check!(pos % MA == 0, "C10: bump position is not a multiple of the minimum alignment");
    kani::cover!(true, "END: harness ran to completion");
}

macro_rules! split_parts_harness {
    ($name:ident, $up:literal, $ma:literal, $len:literal) => {
        #[kani::proof]
        #[kani::unwind(6)]
        #[kani::stub(std::alloc::handle_alloc_error, crate::stubs::hae_stub)]
        fn $name() {
            split_parts_body::<$up, $ma, $len>();
        }
    };
}
split_parts_harness!(split_parts_up8_len8, true, 8, 8);
split_parts_harness!(split_parts_up8_len16, true, 8, 16);
split_parts_harness!(split_parts_down4_len8, false, 4, 8);
split_parts_harness!(split_parts_up1_len8, true, 1, 8);
