//! C19 — BumpPool hands every arena to one user at a time (sequentialised: Kani has no threads).
//! Two logical threads; a symbolic boolean per step picks which one performs its next pool operation
//! (get + allocate + write, or drop the guard). One step = one pool critical section + the thread-local work after it.
//! `Mutex::lock` is stubbed by "try_lock must succeed" (an uncontended lock in a sequentialised schedule; a
//! self-deadlock becomes a failed check). Real preemption, data races and >2 threads are outside the claim.
use crate::check;
use crate::common::*;
use bump_scope::alloc::Allocator;
use bump_scope::{Bump, BumpPool, BumpPoolGuard};
use core::alloc::Layout;
use std::sync::{LockResult, Mutex, MutexGuard, TryLockError};

pub fn lock_stub<T>(m: &Mutex<T>) -> LockResult<MutexGuard<'_, T>> {
    match m.try_lock() {
        Ok(g) => Ok(g),
        Err(TryLockError::Poisoned(p)) => Err(p),
        Err(TryLockError::WouldBlock) => panic!("C19: the pool's mutex is taken while it is already held (self-deadlock)"),
    }
}

type St = S<1, true>;
type Pool = BumpPool<VA, St>;
type Guard<'a> = BumpPoolGuard<'a, VA, St>;

fn first_chunk(g: &Guard<'_>) -> usize {
    let mut it = g.stats().small_to_big();
    addr(it.next().unwrap().chunk_start())
}

/// One schedule per harness (the symbolic-choice versions of DESIGN.md 3/C19 exceed 29-42 GB):
///   SCHED 0 "hand-off": T0.get, T0 allocates+writes, T0.drop, T1.get (try_get or try_get_with_capacity), T1 allocates
///   SCHED 1 "overlap":  T0.get, T1.get (two guards live), both allocate, T0.drop, T1.drop
/// END 0: guards forgotten / nothing released; 1: pool.reset_to_start(); 2: pool.reset(); 3: drop(pool)
fn pool_body<const SCHED: u8, const WITH_CAPACITY: bool, const END: u8>() {
    let mut pool = core::mem::ManuallyDrop::new(BumpPool::<VA, St>::new_in(VA));
    pool.bumps().reserve(2);
    let (v0, v1): (u8, u8) = (kani::any(), kani::any());
    let (a0, a1);
    {
        let pool_ref: &Pool = &pool;
        set_budget(1);
        let Ok(g0) = pool_ref.try_get() else { return };
        set_budget(0);
        let arena0 = first_chunk(&g0);
        let Ok(p0) = g0.allocate(Layout::from_size_align(2, 1).unwrap()) else { return };
        let p0 = p0.cast::<u8>();
        unsafe { p0.as_ptr().write(v0) };
        a0 = addr(p0);
        let g0 = if SCHED == 1 {
            Some(g0)
        } else {
            drop(g0);
            None
        };
        check!(released() == 0, "C19: returning a guard released a chunk");
        set_budget(1);
        let r1 = if WITH_CAPACITY { pool_ref.try_get_with_capacity(Layout::from_size_align(32, 1).unwrap()) } else { pool_ref.try_get() };
        set_budget(0);
        let Ok(g1) = r1 else { return };
        check!(released() == 0, "C19: handing out an arena released a chunk while the pool is alive");
        let arena1 = first_chunk(&g1);
        if SCHED == 1 {
            check!(arena1 != arena0, "C19: two live guards refer to the same arena");
            check!(grants() == 2, "C19: two simultaneously live guards did not get two arenas");
        } else {
            check!(grants() == 1, "C19: a new arena was created although an idle one was available");
            check!(arena1 == arena0, "C19: the idle arena was not re-issued");
        }
        let Ok(p1) = g1.allocate(Layout::from_size_align(2, 1).unwrap()) else { return };
        let p1 = p1.cast::<u8>();
        unsafe { p1.as_ptr().write(v1) };
        a1 = addr(p1);
        check!(a1 != a0 && a1 != a0 + 1 && a1 + 1 != a0, "C19/C01: allocations made through two guards overlap");
        check!(unsafe { (a0 as *const u8).read() } == v0, "C19: data allocated through a guard changed before the pool was reset");
        if END == 0 {
            core::mem::forget(g0);
            core::mem::forget(g1);
        } else {
            drop(g0);
            drop(g1);
            check!(released() == 0, "C19: returning a guard released a chunk");
        }
    }
    if END == 0 {
        return finish();
    }
    let peak = if SCHED == 1 { 2 } else { 1 };
    check!(pool.bumps().len() == grants(), "C19: arenas lost or duplicated in the pool");
    check!(pool.bumps().len() <= peak, "C19: pool holds more arenas than the peak number of live guards");
    check!(unsafe { (a0 as *const u8).read() } == v0 && unsafe { (a1 as *const u8).read() } == v1, "C19: data changed before the pool was reset");
    match END {
        1 => {
            pool.reset_to_start();
            check!(live_grants() == grants() && released() == 0, "C19/C05: reset_to_start of the pool released a chunk");
        }
        2 => {
            pool.reset();
            check!(live_grants() == grants(), "C19/C05: reset of single-chunk arenas released a chunk");
        }
        _ => {
            let n = grants();
            drop(core::mem::ManuallyDrop::into_inner(pool));
            check!(live_grants() == 0 && released() == n, "C19/C05: dropping the pool did not return every chunk exactly once");
        }
    }
    finish()
}

#[inline(never)]
fn finish() {
    kani::cover!(true, "END: harness ran to completion");
}

macro_rules! pool_harness {
    ($name:ident, $sched:literal, $cap:literal, $end:literal) => {
        #[kani::proof]
        #[kani::unwind(7)]
        #[kani::stub(std::alloc::handle_alloc_error, crate::stubs::hae_stub)]
        #[kani::stub(std::sync::Mutex::lock, lock_stub)]
        fn $name() {
            pool_body::<$sched, $cap, $end>();
        }
    };
}
pool_harness!(pool_handoff_get, 0, false, 0);
pool_harness!(pool_handoff_with_capacity, 0, true, 0);
pool_harness!(pool_overlap_get, 1, false, 0);
pool_harness!(pool_overlap_with_capacity, 1, true, 0);
pool_harness!(pool_handoff_then_drop, 0, false, 3);
pool_harness!(pool_overlap_then_drop, 1, false, 3);
pool_harness!(pool_overlap_then_reset, 1, false, 2);
pool_harness!(pool_handoff_then_reset_to_start, 0, true, 1);
