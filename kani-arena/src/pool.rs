//! C19 — BumpPool hands every arena to one user at a time (sequentialised: Kani has no threads).
//! Two logical threads; a symbolic boolean per step picks which one performs its next pool operation
//! (get + allocate + write, or drop the guard). One step = one pool critical section + the thread-local work after it.
//! `Mutex::lock` is stubbed by "try_lock must succeed" (an uncontended lock in a sequentialised schedule; a
//! self-deadlock becomes a failed check). Real preemption, data races and >2 threads are outside the claim.
use crate::common::*;
use bump_scope::alloc::Allocator;
use bump_scope::{Bump, BumpPool, BumpPoolGuard};
use core::alloc::Layout;
use std::sync::{LockResult, Mutex, MutexGuard, TryLockError};

pub fn lock_stub<T>(m: &Mutex<T>) -> LockResult<MutexGuard<'_, T>> {
    match m.try_lock() {
        Ok(g) => Ok(g),
        Err(TryLockError::Poisoned(p)) => Err(p),
        Err(TryLockError::WouldBlock) => panic!("C19: the pool's mutex is taken while it is already held (self-deadlock)"),
    }
}

type St = S<1, true>;
type Pool = BumpPool<VA, St>;
type Guard<'a> = BumpPoolGuard<'a, VA, St>;

struct Rec {
    addr: usize,
    val: u8,
    arena: usize,
}

fn first_chunk(g: &Guard<'_>) -> usize {
    let mut it = g.stats().small_to_big();
    addr(it.next().unwrap().chunk_start())
}

/// one scheduler step of logical thread `slot`
#[inline(always)]
fn step<'p>(pool: &'p Pool, slot: &mut Option<Guard<'p>>, other: &Option<Guard<'p>>, recs: &mut [Rec; 4], nrec: &mut usize, live: &mut usize, peak: &mut usize) {
    match slot.take() {
        Some(g) => {
            drop(g);
            *live -= 1;
        }
        None => {
            set_budget(1);
            // either entry point; with_capacity asks for more than an arena with one 48-byte chunk can have left
            let r = if kani::any() { pool.try_get() } else { pool.try_get_with_capacity(Layout::from_size_align(32, 1).unwrap()) };
            set_budget(0);
            // handing out an arena never releases memory of any arena
            assert!(released() == 0, "C19: a pool operation released a chunk while the pool is alive");
            let Ok(g) = r else { return };
            *live += 1;
            if *live > *peak {
                *peak = *live;
            }
            // exclusivity: two live guards never refer to the same arena
            if let Some(o) = other {
                assert!(first_chunk(&g) != first_chunk(o), "C19: two live guards refer to the same arena");
            }
            // thread-local work: allocate two bytes and write a pattern
            if let Ok(p) = g.allocate(Layout::from_size_align(2, 1).unwrap()) {
                let v: u8 = kani::any();
                let p = p.cast::<u8>();
                unsafe { p.as_ptr().write(v) };
                if *nrec < 4 {
                    recs[*nrec] = Rec { addr: addr(p), val: v, arena: first_chunk(&g) };
                    *nrec += 1;
                }
            }
            *slot = Some(g);
        }
    }
}

#[kani::proof]
#[kani::unwind(7)]
#[kani::stub(std::alloc::handle_alloc_error, crate::stubs::hae_stub)]
#[kani::stub(std::sync::Mutex::lock, lock_stub)]
fn pool_two_threads() {
    let mut pool: Pool = BumpPool::new_in(VA);
    pool.bumps().reserve(4);
    let mut recs = [const { Rec { addr: 0, val: 0, arena: 0 } }; 4];
    let (mut nrec, mut live, mut peak) = (0usize, 0usize, 0usize);
    {
        let pool_ref: &Pool = &pool;
        let mut g0: Option<Guard<'_>> = None;
        let mut g1: Option<Guard<'_>> = None;
        macro_rules! sched {
            () => {
                if kani::any::<bool>() {
                    step(pool_ref, &mut g0, &g1, &mut recs, &mut nrec, &mut live, &mut peak);
                } else {
                    step(pool_ref, &mut g1, &g0, &mut recs, &mut nrec, &mut live, &mut peak);
                }
            };
        }
        sched!();
        sched!();
        sched!();
        sched!();
        kani::cover!(g0.is_some() && g1.is_some(), "two guards live at once");
        kani::cover!(grants() == 1 && nrec >= 2, "one arena reused by a later get");
        kani::cover!(grants() == 2, "two arenas created");
        // an arena returned by a dropped guard is reused before a new one is created
        assert!(grants() <= peak, "C19: more arenas were created than the peak number of simultaneously live guards");
        // everything allocated through any guard is still intact (also after the arena was re-issued)
        let k: usize = kani::any();
        if k < nrec {
            assert!(unsafe { (recs[k].addr as *const u8).read() } == recs[k].val, "C19: data allocated through a guard changed before the pool was reset");
            let j: usize = kani::any();
            if j < nrec && j != k {
                assert!(recs[j].addr != recs[k].addr, "C19/C01: two allocations made through guards share an address");
            }
        }
        drop(g0);
        drop(g1);
        assert!(released() == 0, "C19: returning a guard released a chunk");
    }
    assert!(pool.bumps().len() == grants(), "C19: arenas lost or duplicated in the pool");
    assert!(pool.bumps().len() <= peak, "C19: pool holds more arenas than the peak number of live guards");
    let end: u8 = kani::any();
    match end % 3 {
        0 => {
            pool.reset_to_start();
            assert!(live_grants() == grants() && released() == 0, "C19/C05: reset_to_start of the pool released a chunk");
        }
        1 => {
            pool.reset();
            assert!(live_grants() == grants(), "C19/C05: reset of single-chunk arenas released a chunk");
        }
        _ => {}
    }
    let n = grants();
    drop(pool);
    assert!(live_grants() == 0 && released() == n, "C19/C05: dropping the pool did not return every chunk exactly once");
    kani::cover!(true, "END: harness ran to completion");
}
