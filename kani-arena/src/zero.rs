//! C02, zero clause over the WHOLE returned block: `allocate_zeroed` / `grow_zeroed` may hand out more bytes than
//! requested (the slice they return is the block); every byte of it beyond the old contents must read as zero
//! (`Allocator::grow_zeroed`: "bytes old_size..new_size are zeroed, new_size refers to the size of the memory block
//! returned"). The step skeleton reads the zero clause only up to the *requested* size; a second-round seeded change
//! (grow reports the alignment slack of a downward in-place grow) showed that gap.
use crate::check;
use crate::common::*;
use bump_scope::alloc::Allocator;
use bump_scope::settings::BumpAllocatorSettings;
use bump_scope::{BaseAllocator, Bump};

fn zero_whole_block<St: BumpAllocatorSettings>()
where
    VA: BaseAllocator<St::GuaranteedAllocated>,
{
    set_budget(1);
    let Ok(bump) = Bump::<VA, St>::try_new() else { return };
    let bump = core::mem::ManuallyDrop::new(bump);
    set_budget(0);
    let w1 = Win::of(bump.stats().current_chunk().unwrap());
    // "even when the memory was used before": the whole 16-byte content range holds 0xAA (concrete pointer and
    // length; also makes the counterexample independent of what fresh heap memory contains natively)
    {
        let c = bump.stats().current_chunk().unwrap();
        check!(c.capacity() == 16, "harness: first chunk of the stub allocator has 16 bytes of capacity");
        unsafe { core::ptr::write_bytes(c.content_start().as_ptr(), 0xAA, 16) };
    }
    // filler so that the position before B is not a multiple of B's alignment
    let la = any_layout(3, 0);
    let Ok(_a) = bump.allocate(la) else { return };
    let lb = any_layout(8, 3);
    kani::assume(lb.size() > 0);
    let Ok(b) = bump.allocate(lb) else { return };
    let b = b.cast::<u8>();
    // one byte of B at a solver-chosen offset holds a non-zero value (the memory of a fresh chunk is arbitrary anyway)
    let ib: usize = kani::any();
    kani::assume(ib < lb.size());
    let vb: u8 = kani::any();
    kani::assume(vb != 0);
    unsafe { w1.write(addr(b) + ib, vb) };
    let ln = any_layout(16, 3);
    let zeroed_alloc: bool = kani::any();
    let (nb, from) = if zeroed_alloc {
        let Ok(nb) = bump.allocate_zeroed(ln) else { return };
        (nb, 0)
    } else {
        kani::assume(ln.size() >= lb.size());
        let Ok(nb) = (unsafe { bump.grow_zeroed(b, lb, ln) }) else { return };
        (nb, lb.size())
    };
    let n = nb.cast::<u8>();
    let nlen = nb.len();
    check!(nlen >= ln.size(), "C01: block smaller than requested");
    kani::cover!(!zeroed_alloc && addr(n) != addr(b) && ln.size() > lb.size(), "[down] grow_zeroed moved the start of the block (downward in-place grow or copy)");
    kani::cover!(!zeroed_alloc && addr(n) == addr(b) && ln.size() > lb.size(), "[up] grow_zeroed in place");
    kani::cover!(zeroed_alloc && ln.size() > 0, "allocate_zeroed");
    let i: usize = kani::any();
    kani::assume(i >= from && i < nlen);
    check!(w1.holds(addr(n) + i), "harness: returned block outside the observation window");
    check!(unsafe { w1.read(addr(n) + i) } == 0, "C02: a byte of the returned zeroed block (beyond the old contents) is not zero");
    if !zeroed_alloc && ib < lb.size() {
        check!(unsafe { w1.read(addr(n) + ib) } == vb, "C02: surviving prefix of a block grown with grow_zeroed differs from the old contents");
    }
    kani::cover!(true, "END: harness ran to completion");
}

macro_rules! zero_harness {
    ($name:ident, $S:ty) => {
        #[kani::proof]
        #[kani::unwind(6)]
        #[kani::stub(std::alloc::handle_alloc_error, crate::stubs::hae_stub)]
        fn $name() {
            zero_whole_block::<$S>();
        }
    };
}
zero_harness!(zero_whole_block_down1, S<1, false>);
zero_harness!(zero_whole_block_down8, S<8, false>);
zero_harness!(zero_whole_block_up1, S<1, true>);
