//! Verification base allocators (environment stubs) and shared oracles.

/// An oracle: `assert!` plus a cover of its negation. When the assertion fails the cover is satisfied, and Kani
/// prints a concrete-playback test for a satisfied cover reliably (for some failed assertions it prints none);
/// the driver uses that test to replay the violation natively. On a tree where the property holds these covers are
/// unsatisfiable; the driver ignores them as vacuity witnesses.
#[macro_export]
macro_rules! check {
    ($c:expr, $m:literal) => {{
        let ok: bool = $c;
        kani::cover!(!ok, $m);
        assert!(ok, $m);
    }};
}

use bump_scope::alloc::{AllocError, Allocator};
use bump_scope::settings::{BumpAllocatorSettings, BumpSettings};
use bump_scope::stats::Stats;
use bump_scope::Bump;
use core::alloc::Layout;
use core::ptr::NonNull;

// ------------------------------------------------------------------------------------------------
// log of base-allocator traffic (C05 oracle) + just-in-time budget (DESIGN.md 2.5)
// ------------------------------------------------------------------------------------------------
pub const LOGN: usize = 4;

#[derive(Clone, Copy)]
pub struct Grant {
    pub addr: usize,
    pub requested: usize,
    pub granted: usize,
    pub align: usize,
    pub live: bool,
}

pub static mut LOG: [Grant; LOGN] = [Grant { addr: 0, requested: 0, granted: 0, align: 0, live: false }; LOGN];
pub static mut NGRANTS: usize = 0;
pub static mut NCALLS: usize = 0;
pub static mut NRELEASED: usize = 0;
/// concrete number of base-allocator calls that may still succeed
pub static mut BUDGET: usize = 0;
/// symbolic failure mask: bit k set => the k-th call (0-based) fails even if budget is left
pub static mut FAIL_MASK: u8 = 0;
/// see `raw_block`: serve every multiple of 16 up to 256 instead of the three sizes a correct tree asks for
pub static mut WIDE: bool = false;

pub fn set_budget(n: usize) {
    unsafe { BUDGET = n }
}
pub fn calls() -> usize {
    unsafe { NCALLS }
}
pub fn grants() -> usize {
    unsafe { NGRANTS }
}
pub fn released() -> usize {
    unsafe { NRELEASED }
}
pub fn live_grants() -> usize {
    let mut n = 0;
    let mut k = 0;
    while k < LOGN {
        if unsafe { LOG[k].live } {
            n += 1;
        }
        k += 1;
    }
    n
}

/// Serves exactly the block sizes the library can ask for under the harness bounds; every block is a heap
/// object of CONCRETE size `size + EXTRA` (CBMC needs concrete object sizes), returned with length
/// `size + EXTRA` ("hands out more"). Anything else is refused.
#[inline(always)]
unsafe fn raw_block<const EXTRA: usize>(size: usize, align: usize) -> *mut u8 {
    macro_rules! arm {
        ($n:literal) => {
            unsafe { std::alloc::alloc(Layout::from_size_align_unchecked($n + EXTRA, align)) }
        };
    }
    // the sizes a 32-byte-header arena with MINIMUM_CHUNK_SIZE = 1 asks for: 48 (16 B capacity), then 112, then 240
    // NARROW (default): exactly the three sizes a correct tree asks for. Where the requested size is SYMBOLIC
    // (with_capacity / reserve / first allocation with a symbolic layout) every arm is a feasible heap object, and 14
    // arms instead of 3 took `c12x_with_capacity_va_down` from 6.6 GB to out of memory at 19 GB.
    // WIDE (set by the growth-rule harnesses, whose requests are concrete on every path): every multiple of 16 up to
    // 256 is served, so that a change which makes the library ask for another size (a wrong growth rule) is SERVED and
    // judged by the oracles (C10 "strictly larger", C12 "at least twice the previous size less 16") instead of being
    // refused and reported as an unsatisfied witness.
    match size {
        48 => arm!(48),
        112 => arm!(112),
        240 => arm!(240),
        _ => {
            if unsafe { WIDE } {
                match size {
                    64 => arm!(64),
                    80 => arm!(80),
                    96 => arm!(96),
                    128 => arm!(128),
                    144 => arm!(144),
                    160 => arm!(160),
                    176 => arm!(176),
                    192 => arm!(192),
                    208 => arm!(208),
                    224 => arm!(224),
                    256 => arm!(256),
                    _ => core::ptr::null_mut(),
                }
            } else {
                core::ptr::null_mut()
            }
        }
    }
}

unsafe fn va_allocate<const EXTRA: usize>(layout: Layout) -> Result<NonNull<[u8]>, AllocError> {
    unsafe {
        let call = NCALLS;
        NCALLS += 1;
        if BUDGET == 0 {
            return Err(AllocError);
        }
        if call < 8 && (FAIL_MASK >> call) & 1 == 1 {
            return Err(AllocError);
        }
        let p = raw_block::<EXTRA>(layout.size(), layout.align());
        if p.is_null() {
            return Err(AllocError);
        }
        BUDGET -= 1;
        check!(NGRANTS < LOGN, "harness: more base-allocator grants than the log can hold");
        LOG[NGRANTS] = Grant { addr: p as usize, requested: layout.size(), granted: layout.size() + EXTRA, align: layout.align(), live: true };
        NGRANTS += 1;
        Ok(NonNull::slice_from_raw_parts(NonNull::new_unchecked(p), layout.size() + EXTRA))
    }
}

unsafe fn va_allocate_over(layout: Layout) -> Result<NonNull<[u8]>, AllocError> {
    unsafe {
        let call = NCALLS;
        NCALLS += 1;
        if BUDGET == 0 {
            return Err(AllocError);
        }
        let p = match layout.size() {
            112 => std::alloc::alloc(Layout::from_size_align_unchecked(112, 32)),
            128 => std::alloc::alloc(Layout::from_size_align_unchecked(128, 32)),
            240 => std::alloc::alloc(Layout::from_size_align_unchecked(240, 32)),
            256 => std::alloc::alloc(Layout::from_size_align_unchecked(256, 32)),
            _ => core::ptr::null_mut(),
        };
        if p.is_null() {
            return Err(AllocError);
        }
        BUDGET -= 1;
        check!(NGRANTS < LOGN, "harness: more base-allocator grants than the log can hold");
        LOG[NGRANTS] = Grant { addr: p as usize, requested: layout.size(), granted: layout.size(), align: layout.align(), live: true };
        NGRANTS += 1;
        Ok(NonNull::slice_from_raw_parts(NonNull::new_unchecked(p), layout.size()))
    }
}



unsafe fn va_deallocate(ptr: NonNull<u8>, layout: Layout) {
    unsafe {
        let addr = ptr.as_ptr() as usize;
        let mut found = false;
        let mut k = 0;
        while k < LOGN {
            if k < NGRANTS && LOG[k].addr == addr {
                found = true;
                check!(LOG[k].live, "C05: block released twice");
                check!(LOG[k].align == layout.align(), "C05: block released with a different alignment");
                check!(layout.size() >= LOG[k].requested && layout.size() <= LOG[k].granted, "C05: block released with a size outside [requested, granted]");
                LOG[k].live = false;
                NRELEASED += 1;
                std::alloc::dealloc(ptr.as_ptr(), Layout::from_size_align_unchecked(LOG[k].granted, LOG[k].align));
            }
            k += 1;
        }
        check!(found, "C05: released a pointer that was never granted");
    }
}

/// Zero-sized verification allocator handing out `EXTRA` more bytes than requested.
#[derive(Clone, Copy, Default)]
pub struct VA<const EXTRA: usize = 0>;

unsafe impl<const EXTRA: usize> Allocator for VA<EXTRA> {
    fn allocate(&self, layout: Layout) -> Result<NonNull<[u8]>, AllocError> {
        unsafe { va_allocate::<EXTRA>(layout) }
    }
    unsafe fn deallocate(&self, ptr: NonNull<u8>, layout: Layout) {
        unsafe { va_deallocate(ptr, layout) }
    }
}

/// Verification allocator whose blocks start `OFF` bytes (a multiple of 16) into a maximally aligned heap object:
/// CBMC places every object at `object_id << 48`, so without this variant a chunk start that is ONLY 16-aligned - and
/// with it every alignment padding > 0 for over-aligned requests at the start of a chunk - would never be explored.
#[derive(Clone, Copy, Default)]
pub struct VAOff<const OFF: usize>;

unsafe impl<const OFF: usize> Allocator for VAOff<OFF> {
    fn allocate(&self, layout: Layout) -> Result<NonNull<[u8]>, AllocError> {
        unsafe {
            NCALLS += 1;
            if BUDGET == 0 || layout.align() > 16 {
                return Err(AllocError);
            }
            // object = OFF bytes of slack + the block; `raw_block` serves the concrete sizes
            let p = raw_block::<OFF>(layout.size(), 64);
            if p.is_null() {
                return Err(AllocError);
            }
            BUDGET -= 1;
            check!(NGRANTS < LOGN, "harness: more base-allocator grants than the log can hold");
            let q = p.add(OFF);
            LOG[NGRANTS] = Grant { addr: q as usize, requested: layout.size(), granted: layout.size(), align: layout.align(), live: true };
            NGRANTS += 1;
            Ok(NonNull::slice_from_raw_parts(NonNull::new_unchecked(q), layout.size()))
        }
    }
    unsafe fn deallocate(&self, ptr: NonNull<u8>, layout: Layout) {
        unsafe {
            let addr = ptr.as_ptr() as usize;
            let mut found = false;
            let mut k = 0;
            while k < LOGN {
                if k < NGRANTS && LOG[k].addr == addr {
                    found = true;
                    check!(LOG[k].live, "C05: block released twice");
                    check!(LOG[k].align == layout.align(), "C05: block released with a different alignment");
                    check!(layout.size() == LOG[k].requested, "C05: block released with a size outside [requested, granted]");
                    LOG[k].live = false;
                    NRELEASED += 1;
                        std::alloc::dealloc(ptr.as_ptr().sub(OFF), Layout::from_size_align_unchecked(LOG[k].granted + OFF, 64));
                }
                k += 1;
            }
            check!(found, "C05: released a pointer that was never granted");
        }
    }
}

/// Stateful verification allocator: 8 bytes of state => 48-byte chunk header. With MINIMUM_CHUNK_SIZE = 1 the first
/// chunk is 48 bytes (the header alone, capacity 0), the next ones 112 and 240.
#[derive(Clone, Copy, Default)]
pub struct VAStateful {
    pub id: u64,
}

unsafe impl Allocator for VAStateful {
    fn allocate(&self, layout: Layout) -> Result<NonNull<[u8]>, AllocError> {
        unsafe { va_allocate::<0>(layout) }
    }
    unsafe fn deallocate(&self, ptr: NonNull<u8>, layout: Layout) {
        // C05 "a returned block is never read or written afterwards": a stateful allocator may look at its own state
        // while and after it releases the block, so the handle it is called through must not live INSIDE that block
        // (a copy of the allocator sits in every chunk header). Checked on addresses: measured, Kani 0.68 / CBMC 6.11
        // do not flag a read through a pointer into a block released with std::alloc::dealloc (DESIGN.md 2.8), and
        // poisoning the block instead costs 9 GB per release harness.
        let me = self as *const Self as usize;
        let lo = ptr.as_ptr() as usize;
        check!(me + core::mem::size_of::<Self>() <= lo || me >= lo + layout.size(), "C05: the allocator handle passed to deallocate lives inside the block that is being released");
        unsafe { va_deallocate(ptr, layout) }
    }
}


/// Over-aligned verification allocator: header alignment 32, header size 64.
#[derive(Clone, Copy, Default)]
#[repr(align(32))]
pub struct VAOver(pub u8);

unsafe impl Allocator for VAOver {
    fn allocate(&self, layout: Layout) -> Result<NonNull<[u8]>, AllocError> {
        // header 64 bytes, alignment 32: the arena asks for 112 (up) / 128 (down), then 240 / 256
        unsafe { va_allocate_over(layout) }
    }
    unsafe fn deallocate(&self, ptr: NonNull<u8>, layout: Layout) {
        unsafe { va_deallocate(ptr, layout) }
    }
}

// ------------------------------------------------------------------------------------------------
// settings shorthand: smallest chunks the library can make (MINIMUM_CHUNK_SIZE = 1 => 48-byte first chunk)
// ------------------------------------------------------------------------------------------------
pub type S<const MIN_ALIGN: usize, const UP: bool, const GA: bool = true, const DEALLOC: bool = true, const SHRINK: bool = true> =
    BumpSettings<MIN_ALIGN, UP, GA, true, DEALLOC, SHRINK, 1>;

/// symbolic layout with size <= max_size and alignment 1 << k, k <= max_align_log2
pub fn any_layout(max_size: usize, max_align_log2: u32) -> Layout {
    let size: usize = kani::any();
    let k: u32 = kani::any();
    kani::assume(size <= max_size);
    kani::assume(k <= max_align_log2);
    Layout::from_size_align(size, 1usize << k).unwrap()
}

pub fn addr(p: NonNull<u8>) -> usize {
    p.as_ptr() as usize
}

pub fn disjoint(a: usize, alen: usize, b: usize, blen: usize) -> bool {
    alen == 0 || blen == 0 || a + alen <= b || b + blen <= a
}

/// C10: bookkeeping identities of the typed statistics, for an arena of at most 3 chunks.
pub fn assert_stats_coherent<A, St: BumpAllocatorSettings>(stats: Stats<'_, A, St>, header_size: usize) {
    let mut count = 0;
    let mut size = 0;
    let mut cap = 0;
    let mut prev_size = 0;
    let mut it = stats.small_to_big();
    let mut k = 0;
    // forwards
    let mut fw = [0usize; 3];
    while k < 3 {
        if let Some(c) = it.next() {
            let cs = c.chunk_start().as_ptr() as usize;
            let ce = c.chunk_end().as_ptr() as usize;
            let s = c.content_start().as_ptr() as usize;
            let e = c.content_end().as_ptr() as usize;
            let pos = c.bump_position().as_ptr() as usize;
            check!(c.size() == ce - cs && c.size() % 16 == 0, "C10: chunk size is not a multiple of 16");
            check!(cs <= s && s <= e && e <= ce, "C10: content range outside the chunk");
            if St::UP {
                check!(s - cs == header_size && e == ce, "C10: header is not at the start of the chunk (up)");
            } else {
                check!(ce - e == header_size && s == cs, "C10: header is not at the end of the chunk (down)");
            }
            check!(pos >= s && pos <= e, "C10: bump position outside the content range");
            check!(c.capacity() == e - s, "C10: chunk capacity differs from its content range");
            check!(c.allocated() + c.remaining() == c.capacity(), "C10: allocated + remaining != capacity (chunk)");
            if count > 0 {
                check!(c.size() > prev_size, "C10: later chunk not strictly larger than its predecessor");
                check!(c.size() + 16 >= 2 * prev_size, "C12: a later chunk is smaller than twice its predecessor less 16 bytes");
            }
            prev_size = c.size();
            size += c.size();
            cap += c.capacity();
            fw[count] = cs;
            count += 1;
        }
        k += 1;
    }
    check!(it.next().is_none(), "harness: more than 3 chunks");
    // backwards is the same sequence reversed
    let mut bt = stats.big_to_small();
    let mut j = 0;
    while j < 3 {
        if j < count {
            match bt.next() {
                Some(c) => check!(c.chunk_start().as_ptr() as usize == fw[count - 1 - j], "C10: chunk list differs when read backwards"),
                None => panic!("C10: chunk list shorter when read backwards"),
            }
        }
        j += 1;
    }
    check!(bt.next().is_none(), "C10: chunk list longer when read backwards");
    check!(stats.count() == count, "C10: count() differs from the number of chunks");
    check!(stats.size() == size, "C10: size() differs from the sum of chunk sizes");
    check!(stats.capacity() == cap, "C10: capacity() differs from the sum of chunk capacities");
    check!(stats.allocated() + stats.remaining() == stats.capacity(), "C10: allocated + remaining != capacity");
    check!(stats.capacity() <= stats.size(), "C10: capacity > size");
    if let Some(c) = stats.current_chunk() {
        let pos = c.bump_position().as_ptr() as usize;
        check!(pos % St::MIN_ALIGN == 0, "C10: bump position is not a multiple of the minimum alignment");
    }
}

/// Byte access at a symbolic offset `k < 32` from a pointer with a CONCRETE offset inside its object, written as a
/// case split over concrete offsets. A plain `p.add(k).write(v)` is a write at a symbolic offset into the chunk
/// object, which CBMC must assume may hit the chunk header (pos/end/prev/next live in the same object); every
/// later dereference through the header then fans out over all objects (measured: 60 s/0.9 GB -> >8 GB).
#[inline(always)]
pub unsafe fn poke(base: *mut u8, k: usize, v: u8) {
    macro_rules! arms {
        ($($i:literal)*) => {
            match k {
                $($i => unsafe { base.add($i).write(v) },)*
                _ => kani::assume(false),
            }
        };
    }
    arms!(0 1 2 3 4 5 6 7 8 9 10 11 12 13 14 15 16 17 18 19 20 21 22 23 24 25 26 27 28 29 30 31);
}

#[inline(always)]
pub unsafe fn peek(base: *const u8, k: usize) -> u8 {
    macro_rules! arms {
        ($($i:literal)*) => {
            match k {
                $($i => unsafe { base.add($i).read() },)*
                _ => {
                    kani::assume(false);
                    0
                }
            }
        };
    }
    arms!(0 1 2 3 4 5 6 7 8 9 10 11 12 13 14 15 16 17 18 19 20 21 22 23 24 25 26 27 28 29 30 31)
}

/// A window of 32 bytes with a CONCRETE base pointer inside a chunk, through which single bytes at symbolic
/// offsets are written/read by case split (see `common::poke`).
#[derive(Clone, Copy)]
pub struct Win {
    base: *mut u8,
    lo: usize,
}

impl Win {
    /// the window covering the bump side of a chunk's content range
    pub fn of<A, St: BumpAllocatorSettings>(c: bump_scope::stats::Chunk<'_, A, St>) -> Win {
        let (s, e) = (c.content_start().as_ptr(), c.content_end().as_ptr());
        let cap = e as usize - s as usize;
        let base = if St::UP || cap <= 32 { s } else { unsafe { e.sub(32) } };
        Win { base, lo: base as usize }
    }
    pub fn holds(&self, addr: usize) -> bool {
        addr >= self.lo && addr < self.lo + 32
    }
    pub unsafe fn write(&self, addr: usize, v: u8) {
        unsafe { poke(self.base, addr - self.lo, v) }
    }
    pub unsafe fn read(&self, addr: usize) -> u8 {
        unsafe { peek(self.base, addr - self.lo) }
    }
}

