//! C18 — changing the minimum alignment keeps the position aligned and data intact.
use crate::check;
use crate::common::*;
use bump_scope::alloc::Allocator;
use bump_scope::settings::{BumpAllocatorSettings, BumpSettings};
use bump_scope::{BaseAllocator, Bump, BumpScope};

fn pos<A, St: BumpAllocatorSettings>(s: &BumpScope<'_, A, St>) -> usize {
    addr(s.stats().current_chunk().unwrap().bump_position())
}

/// outer M, inner N (raise or lower); filler, then `aligned::<N>` with one or two allocations inside (may switch
/// chunks while the inner alignment is in force), then an allocation after.
fn aligned_body<const M: usize, const N: usize, const UP: bool>(inner_budget: usize)
where
    bump_scope::settings::MinimumAlignment<M>: bump_scope::settings::SupportedMinimumAlignment,
    bump_scope::settings::MinimumAlignment<N>: bump_scope::settings::SupportedMinimumAlignment,
{
    set_budget(1);
    let Ok(mut bump) = Bump::<VA, S<M, UP>>::try_new() else { return };
    // never run Drop for Bump on early-return paths (it walks the chunk list and calls the base allocator: pure cost)
    let mut bump = core::mem::ManuallyDrop::new(bump);
    set_budget(0);
    let w1 = Win::of(bump.stats().current_chunk().unwrap());
    // two earlier blocks: `a0` stays live, `b` (the newest) may be deallocated inside the region
    // (with an outer minimum alignment of 8 or 16 the 16-byte chunk has room for one block only: no `a0` then)
    let la0 = if M <= 4 { any_layout(3, 0) } else { core::alloc::Layout::new::<()>() };
    let Ok(a0) = bump.allocate(la0) else { return };
    let a0 = a0.cast::<u8>();
    let va0: u8 = kani::any();
    kani::assume(la0.size() > 0 || M > 4);
    if la0.size() > 0 {
        unsafe { w1.write(addr(a0), va0) };
    }
    let lb = any_layout(5, 2);
    let Ok(b) = bump.allocate(lb) else { return };
    let b = b.cast::<u8>();
    let vb: u8 = kani::any();
    let ib: usize = kani::any();
    kani::assume(lb.size() > 0 && ib < lb.size());
    unsafe { w1.write(addr(b) + ib, vb) };
    check!(addr(bump.stats().current_chunk().unwrap().bump_position()) % M == 0, "C18/C10: position not a multiple of the outer minimum alignment before entry");

    // with budget the first inner request is concrete and cannot fit in the 16-byte chunk (chunk switch certain)
    let l1 = if inner_budget == 1 { core::alloc::Layout::from_size_align(20, 4).unwrap() } else { any_layout(8, 3) };
    let l2 = any_layout(8, 3);
    set_budget(inner_budget);
    let dealloc_b: bool = kani::any();
    let (i1, i2) = bump.aligned::<N, _>(|s| {
        check!(pos(s) % N == 0, "C18: position not a multiple of N at entry of aligned::<N>");
        if dealloc_b {
            // give back the newest block while the inner alignment is in force
            unsafe { s.deallocate(b, lb) };
            check!(pos(s) % N == 0, "C18: position not a multiple of N after a deallocation inside aligned::<N>");
        }
        let a1 = s.allocate(l1);
        check!(pos(s) % N == 0, "C18: position not a multiple of N after an allocation inside aligned::<N>");
        let a2 = s.allocate(l2);
        check!(pos(s) % N == 0, "C18: position not a multiple of N after the second allocation inside aligned::<N>");
        kani::cover!(s.stats().count() == 2, "[b1] chunk switch while the inner alignment is in force");
        (a1.map(|p| addr(p.cast())).unwrap_or(0), a2.map(|p| addr(p.cast())).unwrap_or(0))
    });
    set_budget(0);
    kani::cover!(i1 != 0 && i2 != 0, "[room] both inner allocations succeeded");
    check!(addr(bump.stats().current_chunk().unwrap().bump_position()) % M == 0, "C18: position not a multiple of the outer minimum alignment after aligned returned");
    // blocks before / inside / after stay disjoint; the block allocated before is intact
    let l3 = any_layout(8, 3);
    let after = bump.allocate(l3).map(|p| addr(p.cast())).unwrap_or(0);
    kani::cover!(dealloc_b && i1 != 0, "allocated after a deallocation inside the region");
    // the block that stayed live is never overlapped and keeps its contents
    if i1 != 0 {
        check!(disjoint(i1, l1.size(), addr(a0), la0.size()), "C18/C01: inner block overlaps a live block allocated before the region");
    }
    if i2 != 0 {
        check!(disjoint(i2, l2.size(), addr(a0), la0.size()), "C18/C01: inner block overlaps a live block allocated before the region");
    }
    if after != 0 {
        check!(disjoint(after, l3.size(), addr(a0), la0.size()), "C18/C01: block allocated after overlaps a live block allocated before the region");
    }
    if la0.size() > 0 {
        check!(unsafe { w1.read(addr(a0)) } == va0, "C18: data of a live block allocated before the region changed");
    }
    if dealloc_b {
            kani::cover!(true, "END: harness ran to completion");
        return;
    }
    if i1 != 0 {
        check!(i1 % l1.align() == 0, "C18/C01: inner block misaligned");
        check!(disjoint(i1, l1.size(), addr(b), lb.size()), "C18: inner block overlaps the block allocated before");
        if i2 != 0 {
            check!(disjoint(i1, l1.size(), i2, l2.size()), "C18: inner blocks overlap");
        }
        if after != 0 {
            check!(disjoint(i1, l1.size(), after, l3.size()), "C18: block allocated after overlaps an inner block");
        }
    }
    if i2 != 0 && after != 0 {
        check!(disjoint(i2, l2.size(), after, l3.size()), "C18: block allocated after overlaps an inner block");
    }
    if after != 0 {
        kani::cover!(true, "allocated after the region");
        check!(after % l3.align() == 0, "C18/C01: block after the region misaligned");
        check!(disjoint(after, l3.size(), addr(b), lb.size()), "C18: block allocated after overlaps the block allocated before");
    }
    check!(unsafe { w1.read(addr(b) + ib) } == vb, "C18: data allocated before the region changed");
    kani::cover!(true, "END: harness ran to completion");
}

macro_rules! aligned_harness {
    ($name:ident, $m:literal, $n:literal, $up:literal, $budget:expr) => {
        #[kani::proof]
        #[kani::unwind(6)]
        #[kani::stub(std::alloc::handle_alloc_error, crate::stubs::hae_stub)]
        fn $name() {
            aligned_body::<$m, $n, $up>($budget);
        }
    };
}
aligned_harness!(aligned_1_to_8_up_b0, 1, 8, true, 0);
aligned_harness!(aligned_1_to_16_down_b0, 1, 16, false, 0);
aligned_harness!(aligned_16_to_1_up_b0, 16, 1, true, 0);
// downwards with N = 8 / 4: the two earlier blocks can add up to a multiple of N, so that the newest one is still
// the newest after the position was aligned for N and can be given back inside the region
aligned_harness!(aligned_1_to_8_down_b0, 1, 8, false, 0);
aligned_harness!(aligned_2_to_4_down_b0, 2, 4, false, 0);
aligned_harness!(aligned_8_to_2_down_b0, 8, 2, false, 0);
aligned_harness!(aligned_4_to_1_up_b1, 4, 1, true, 1);
aligned_harness!(aligned_16_to_2_down_b1, 16, 2, false, 1);
aligned_harness!(aligned_1_to_4_up_b1, 1, 4, true, 1);

/// with_settings / borrow_mut_with_settings raise the minimum alignment: position aligned on return, data intact
#[kani::proof]
#[kani::unwind(6)]
#[kani::stub(std::alloc::handle_alloc_error, crate::stubs::hae_stub)]
fn settings_raise_alignment() {
    let up: bool = kani::any();
    set_budget(1);
    if up {
        let Ok(mut bump) = Bump::<VA, S<1, true>>::try_new() else { return };
    // never run Drop for Bump on early-return paths (it walks the chunk list and calls the base allocator: pure cost)
    let mut bump = core::mem::ManuallyDrop::new(bump);
        set_budget(0);
        let l = any_layout(7, 0);
        let _ = bump.allocate(l);
        let which: bool = kani::any();
        if which {
            let b8: &mut Bump<VA, S<8, true>> = bump.borrow_mut_with_settings();
            check!(addr(b8.stats().current_chunk().unwrap().bump_position()) % 8 == 0, "C18: position not aligned after borrow_mut_with_settings");
            let _ = b8.allocate(any_layout(3, 0));
            check!(addr(b8.stats().current_chunk().unwrap().bump_position()) % 8 == 0, "C18: position not aligned after an allocation with the raised alignment");
            kani::cover!(l.size() == 3, "raised from a misaligned position");
                } else {
            let b16: Bump<VA, S<16, true>> = core::mem::ManuallyDrop::into_inner(bump).with_settings();
            check!(addr(b16.stats().current_chunk().unwrap().bump_position()) % 16 == 0, "C18: position not aligned after with_settings");
            core::mem::forget(b16);
        }
    } else {
        let Ok(mut bump) = Bump::<VA, S<2, false>>::try_new() else { return };
    // never run Drop for Bump on early-return paths (it walks the chunk list and calls the base allocator: pure cost)
    let mut bump = core::mem::ManuallyDrop::new(bump);
        set_budget(0);
        let _ = bump.allocate(any_layout(7, 0));
        let b8: &mut Bump<VA, S<8, false>> = bump.borrow_mut_with_settings();
        check!(addr(b8.stats().current_chunk().unwrap().bump_position()) % 8 == 0, "C18: position not aligned after borrow_mut_with_settings (down)");
        }
    kani::cover!(true, "END: harness ran to completion");
}

/// conversions that need an allocated / unclaimed arena panic exactly when that requirement is not met
#[kani::proof]
#[kani::unwind(6)]
#[kani::stub(std::alloc::handle_alloc_error, crate::stubs::hae_stub)]
fn panic_with_settings_unallocated() {
    let bump: Bump<VA, S<1, true, false>> = Bump::unallocated();
    kani::cover!(true, "REACH: unallocated arena");
    // GUARANTEED_ALLOCATED = true is requested of an unallocated arena
    let b: Bump<VA, S<1, true, true>> = bump.with_settings();
    kani::cover!(true, "UNSAT: with_settings to guaranteed-allocated returned normally on an unallocated arena");
    core::mem::forget(b);
}

#[kani::proof]
#[kani::unwind(6)]
#[kani::stub(std::alloc::handle_alloc_error, crate::stubs::hae_stub)]
fn panic_with_settings_claimed() {
    set_budget(1);
    let Ok(bump) = Bump::<VA, S<1, true>>::try_new() else { return };
    // never run Drop for Bump on early-return paths (it walks the chunk list and calls the base allocator: pure cost)
    let mut bump = core::mem::ManuallyDrop::new(bump);
    set_budget(0);
    let g = bump.claim();
    kani::cover!(true, "REACH: claimed arena");
    core::mem::forget(g);
    // CLAIMABLE = false is requested of a claimed arena
    let b: Bump<VA, BumpSettings<1, true, true, false, true, true, 1>> = core::mem::ManuallyDrop::into_inner(bump).with_settings();
    kani::cover!(true, "UNSAT: with_settings to non-claimable returned normally on a claimed arena");
    core::mem::forget(b);
}

/// the no-panic twins: the same conversions on an allocated, unclaimed arena never reach a panic
#[kani::proof]
#[kani::unwind(6)]
#[kani::stub(std::alloc::handle_alloc_error, crate::stubs::hae_stub)]
fn nopanic_with_settings_ok() {
    set_budget(1);
    let Ok(bump) = Bump::<VA, S<1, true, false>>::try_new() else { return };
    // never run Drop for Bump on early-return paths (it walks the chunk list and calls the base allocator: pure cost)
    let mut bump = core::mem::ManuallyDrop::new(bump);
    set_budget(0);
    let b: Bump<VA, S<4, true, true>> = core::mem::ManuallyDrop::into_inner(bump).with_settings();
    check!(addr(b.stats().current_chunk().unwrap().bump_position()) % 4 == 0, "C18: position not aligned after with_settings");
    let b2: Bump<VA, BumpSettings<4, true, true, false, true, true, 1>> = b.with_settings();
    core::mem::forget(b2);
    kani::cover!(true, "END: harness ran to completion");
}

// ------------------------------------------------------------------------------------------------
// blocks packed back to back under a LOW minimum alignment, the minimum alignment is RAISED (borrow_mut_with_settings
// or aligned::<8>), then ONE operation on the OLDER block A (not the newest allocation): the newer block B - which
// may sit inside what is now A's min-align padding - keeps its bytes and is never overlapped (C18 "data intact",
// C01 disjoint, C02 contents, C13 "deallocating or shrinking any other block reclaims nothing").
// ------------------------------------------------------------------------------------------------
fn older_op<AL: Allocator, const UP: bool>(s: &AL, w1: Win, a: core::ptr::NonNull<u8>, la: core::alloc::Layout, ia: usize, va: u8, b: core::ptr::NonNull<u8>, lb: core::alloc::Layout, ib: usize, vb: u8) {
    let op: u8 = kani::any();
    kani::assume(op < 4);
    let ln = any_layout(8, 3);
    let res = match op {
        0 => {
            unsafe { s.deallocate(a, la) };
            s.allocate(ln)
        }
        1 => {
            kani::assume(ln.size() >= la.size());
            unsafe { s.grow(a, la, ln) }
        }
        2 => {
            kani::assume(ln.size() >= la.size());
            unsafe { s.grow_zeroed(a, la, ln) }
        }
        _ => {
            kani::assume(ln.size() <= la.size());
            unsafe { s.shrink(a, la, ln) }
        }
    };
    check!(unsafe { w1.read(addr(b) + ib) } == vb, "C18/C02: bytes of a live newer block changed by an operation on an older block after the minimum alignment was raised");
    if let Ok(n) = res {
        let n = n.cast::<u8>();
        kani::cover!(op == 0, "deallocate + allocate on the older block returned a block");
        kani::cover!(op == 1, "grow of the older block returned a block");
        kani::cover!(op == 3, "shrink of the older block returned a block");
        check!(addr(n) % ln.align() == 0, "C01: block misaligned");
        check!(disjoint(addr(n), ln.size(), addr(b), lb.size()), "C18/C01: a block returned for an operation on an older block overlaps the live newer block");
        if op != 0 && ia < ln.size() && w1.holds(addr(n) + ia) {
            check!(unsafe { w1.read(addr(n) + ia) } == va, "C02: contents of the reallocated older block were not preserved");
        }
        // the returned block is written by its owner: the newer block must not see it
        if ln.size() > 0 && w1.holds(addr(n)) {
            unsafe { w1.write(addr(n), !vb) };
            check!(unsafe { w1.read(addr(b) + ib) } == vb, "C18/C01: writing to the returned block changed the live newer block");
        }
    }
}

fn raise_then_older_op<const UP: bool>() {
    set_budget(1);
    let Ok(bump) = Bump::<VA, S<1, UP>>::try_new() else { return };
    let mut bump = core::mem::ManuallyDrop::new(bump);
    set_budget(0);
    let w1 = Win::of(bump.stats().current_chunk().unwrap());
    let la = any_layout(4, 3);
    let lb = any_layout(3, 0);
    kani::assume(la.size() > 0 && lb.size() > 0);
    let Ok(a) = bump.allocate(la) else { return };
    let a = a.cast::<u8>();
    let Ok(b) = bump.allocate(lb) else { return };
    let b = b.cast::<u8>();
    let (va, vb, ia, ib): (u8, u8, usize, usize) = (kani::any(), kani::any(), kani::any(), kani::any());
    kani::assume(ia < la.size() && ib < lb.size());
    unsafe {
        w1.write(addr(a) + ia, va);
        w1.write(addr(b) + ib, vb);
    }
    kani::cover!(if UP { addr(a) + la.size() == addr(b) } else { addr(b) + lb.size() == addr(a) }, "the two blocks are packed back to back");
    kani::cover!(if UP { (addr(a) + la.size()) % 8 != 0 && (addr(b) + lb.size() + 7) / 8 == (addr(a) + la.size() + 7) / 8 } else { false }, "[up] the newer block lies inside the older block's padding to the raised alignment");
    let region: bool = kani::any();
    if region {
        bump.aligned::<8, _>(|s| {
            check!(pos(s) % 8 == 0, "C18: position not a multiple of N at entry of aligned::<N>");
            older_op::<_, UP>(&*s, w1, a, la, ia, va, b, lb, ib, vb);
            check!(pos(s) % 8 == 0, "C18: position not a multiple of N after an operation inside aligned::<N>");
        });
    } else {
        let b8: &mut Bump<VA, S<8, UP>> = bump.borrow_mut_with_settings();
        check!(addr(b8.stats().current_chunk().unwrap().bump_position()) % 8 == 0, "C18: position not aligned after borrow_mut_with_settings");
        older_op::<_, UP>(&*b8, w1, a, la, ia, va, b, lb, ib, vb);
        check!(addr(b8.stats().current_chunk().unwrap().bump_position()) % 8 == 0, "C18: position not aligned after an operation with the raised alignment");
    }
    kani::cover!(true, "END: harness ran to completion");
}

#[kani::proof]
#[kani::unwind(6)]
#[kani::stub(std::alloc::handle_alloc_error, crate::stubs::hae_stub)]
fn raise_then_older_op_up() {
    raise_then_older_op::<true>();
}

#[kani::proof]
#[kani::unwind(6)]
#[kani::stub(std::alloc::handle_alloc_error, crate::stubs::hae_stub)]
fn raise_then_older_op_down() {
    raise_then_older_op::<false>();
}
