//! C07 (capacity-overflow clause) / C08 on zero-sized element types: a ZST vector has capacity usize::MAX and never
//! allocates, so "additional > capacity - len" *is* the overflow check. Lengths are fully symbolic (set_len on a ZST
//! vector is sound for every length), nothing loops.
use crate::check;
use crate::common::*;
use bump_scope::{Bump, BumpVec, MutBumpVec};

fn zst_slice<'a>(n: usize) -> &'a [()] {
    unsafe { core::slice::from_raw_parts(core::ptr::NonNull::<()>::dangling().as_ptr(), n) }
}

/// BumpVec<()>: the reserve family (`try_reserve`, `try_reserve_exact`, `try_extend_from_slice_copy`,
/// `try_extend_from_slice_clone` is a loop and left out, `try_extend_from_within_copy`) reports `len + additional >
/// usize::MAX` as an error, never panics, never calls the base allocator and leaves the length unchanged on failure
#[kani::proof]
#[kani::unwind(6)]
#[kani::stub(std::alloc::handle_alloc_error, crate::stubs::hae_stub)]
fn zst_bumpvec_reserve_family() {
    set_budget(1);
    let Ok(bump) = Bump::<VA, S<1, true>>::try_new() else { return };
    let bump = core::mem::ManuallyDrop::new(bump);
    set_budget(0);
    let calls0 = calls();
    let mut v = core::mem::ManuallyDrop::new(BumpVec::<(), _>::new_in(&*bump));
    check!(v.capacity() == usize::MAX, "C08: a ZST vector does not report capacity usize::MAX");
    let len: usize = kani::any();
    unsafe { v.set_len(len) };
    let additional: usize = kani::any();
    let overflow = len.checked_add(additional).is_none();
    let op: u8 = kani::any();
    kani::assume(op < 5);
    let (ok, grows) = match op {
        0 => (v.try_reserve(additional).is_ok(), false),
        1 => (v.try_reserve_exact(additional).is_ok(), false),
        2 => (v.try_extend_from_slice_copy(zst_slice(additional)).is_ok(), true),
        4 => {
            kani::assume(additional == 1);
            (v.try_push(()).is_ok(), true)
        }
        _ => {
            kani::assume(additional <= len);
            (v.try_extend_from_within_copy(..additional).is_ok(), true)
        }
    };
    kani::cover!(overflow && op == 0, "overflowing reserve");
    kani::cover!(overflow && op == 2, "overflowing extend_from_slice_copy");
    kani::cover!(overflow && op == 3, "overflowing extend_from_within_copy");
    kani::cover!(!overflow && op == 2 && additional > 0, "extend that fits");
    kani::cover!(overflow && op == 4, "push onto a vector of usize::MAX elements");
    check!(ok == !overflow, "C07: a ZST BumpVec does not report exactly the capacity overflows of the reserve family as errors");
    if ok && grows {
        check!(v.len() == len + additional, "C08: length after a successful extend of a ZST vector");
    } else {
        check!(v.len() == len, "C07: a failed (or pure reserve) operation changed the length of a ZST vector");
    }
    check!(calls() == calls0, "C07/C08: a ZST vector called the base allocator");
    check!(bump.stats().allocated() == 0, "C07/C08: a ZST vector consumed arena memory");
    kani::cover!(true, "END: harness ran to completion");
}

/// the same for MutBumpVec<()>
#[kani::proof]
#[kani::unwind(6)]
#[kani::stub(std::alloc::handle_alloc_error, crate::stubs::hae_stub)]
fn zst_mutbumpvec_reserve_family() {
    set_budget(1);
    let Ok(bump) = Bump::<VA, S<1, true>>::try_new() else { return };
    let mut bump = core::mem::ManuallyDrop::new(bump);
    set_budget(0);
    let calls0 = calls();
    let mut v = core::mem::ManuallyDrop::new(MutBumpVec::<(), _>::new_in(&mut *bump));
    check!(v.capacity() == usize::MAX, "C08: a ZST vector does not report capacity usize::MAX");
    let len: usize = kani::any();
    unsafe { v.set_len(len) };
    let additional: usize = kani::any();
    let overflow = len.checked_add(additional).is_none();
    let op: u8 = kani::any();
    kani::assume(op < 5);
    let (ok, grows) = match op {
        0 => (v.try_reserve(additional).is_ok(), false),
        1 => (v.try_reserve_exact(additional).is_ok(), false),
        2 => (v.try_extend_from_slice_copy(zst_slice(additional)).is_ok(), true),
        4 => {
            kani::assume(additional == 1);
            (v.try_push(()).is_ok(), true)
        }
        _ => {
            kani::assume(additional <= len);
            (v.try_extend_from_within_copy(..additional).is_ok(), true)
        }
    };
    kani::cover!(overflow && op == 0, "overflowing reserve");
    kani::cover!(overflow && op == 2, "overflowing extend_from_slice_copy");
    kani::cover!(!overflow && op == 2 && additional > 0, "extend that fits");
    kani::cover!(overflow && op == 4, "push onto a vector of usize::MAX elements");
    check!(ok == !overflow, "C07: a ZST MutBumpVec does not report exactly the capacity overflows of the reserve family as errors");
    if ok && grows {
        check!(v.len() == len + additional, "C08: length after a successful extend of a ZST vector");
    } else {
        check!(v.len() == len, "C07: a failed (or pure reserve) operation changed the length of a ZST vector");
    }
    check!(calls() == calls0, "C07/C08: a ZST vector called the base allocator");
    kani::cover!(true, "END: harness ran to completion");
}
