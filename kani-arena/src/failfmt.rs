//! C07 for the formatted-allocation family: `try_alloc_fmt` / `try_alloc_fmt_mut` / `try_alloc_cstr_fmt` with run-time
//! format arguments whose output does not fit the chunk while the base allocator refuses a new one: the `try_` method
//! must return `Err` (never reach the allocation-error handler, which is stubbed by a panic here) and leave the arena
//! as it was. (Third-round seeded change: the AllocError behaviour picking the panicking writer for formatting.)
//! Formatting is limited to a single `{}` of a `&str` (core::fmt explodes in CBMC beyond that, DESIGN.md 2.6).
use crate::check;
use crate::common::*;
use bump_scope::alloc::Allocator;
use bump_scope::Bump;
use core::mem::ManuallyDrop;

fn fail_fmt<const UP: bool, const OP: u8>() {
    set_budget(1);
    let Ok(bump) = Bump::<VA, S<1, UP>>::try_new() else { return };
    let mut bump = ManuallyDrop::new(bump);
    set_budget(0);
    let la = any_layout(6, 2);
    let Ok(_) = bump.allocate(la) else { return };
    let allocated0 = bump.stats().allocated();
    let pos0 = addr(bump.stats().current_chunk().unwrap().bump_position());
    // 20 bytes: more than the whole 16-byte chunk
    let text: &str = "abcdefghijklmnopqrst";
    let failed = match OP {
        0 => bump.try_alloc_fmt(format_args!("{}", text)).is_err(),
        1 => bump.try_alloc_fmt_mut(format_args!("{}", text)).is_err(),
        _ => bump.try_alloc_cstr_fmt(format_args!("{}", text)).is_err(),
    };
    check!(failed, "C07: a formatted try_ allocation that cannot fit returned Ok");
    check!(bump.stats().count() == 1, "C07: failed formatted allocation linked a chunk");
    check!(calls() >= 2, "harness: the base allocator was never asked");
    if OP != 1 {
        // (the exclusive-borrow variant never moves the position at all; the shared one gives its buffer back)
        check!(bump.stats().allocated() == allocated0, "C07: failed formatted allocation changed the allocated byte count");
    }
    check!(addr(bump.stats().current_chunk().unwrap().bump_position()) == pos0 || OP != 1, "C07/C15: failed try_alloc_fmt_mut moved the bump position");
    // the arena keeps working
    if let Ok(b) = bump.try_alloc(7u8) {
        check!(*b == 7, "C07: arena unusable after a failed formatted allocation");
    }
    kani::cover!(true, "END: harness ran to completion");
}

macro_rules! h {
    ($name:ident, $body:expr) => {
        #[kani::proof]
        #[kani::unwind(6)]
        #[kani::stub(std::alloc::handle_alloc_error, crate::stubs::hae_stub)]
        fn $name() {
            $body;
        }
    };
}
h!(fail_fmt_up1, fail_fmt::<true, 0>());
h!(fail_fmt_down1, fail_fmt::<false, 0>());
h!(fail_fmt_mut_up1, fail_fmt::<true, 1>());
h!(fail_cstr_fmt_down1, fail_fmt::<false, 2>());
