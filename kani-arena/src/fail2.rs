//! C07 with RETAINED chunks: a chunk acquired inside a scope stays behind the current one after the scope ends. A
//! request that fits in no retained chunk walks over them before it asks the base allocator; when that refuses, the
//! arena must be exactly where it was (found by a seeded-change sub-agent's side remark, confirmed natively:
//! DESIGN.md 11, defect 4 -- before the fix the arena stayed on the last retained chunk and a `MutBumpVec` whose
//! growth failed that way corrupted the position of that chunk in `into_slice`).
use crate::check;
use crate::common::*;
use bump_scope::alloc::Allocator;
use bump_scope::settings::BumpAllocatorSettings;
use bump_scope::{BaseAllocator, Bump, MutBumpVec, MutBumpVecRev};
use core::alloc::Layout;

/// new -> scope { L(24,1): chunk 2 (112 B) } -> filler in chunk 1 -> budget 0
fn with_retained_chunk<St: BumpAllocatorSettings>() -> Option<core::mem::ManuallyDrop<Bump<VA, St>>>
where
    VA: BaseAllocator<St::GuaranteedAllocated>,
{
    set_budget(1);
    let Ok(bump) = Bump::<VA, St>::try_new() else { return None };
    let mut bump = core::mem::ManuallyDrop::new(bump);
    set_budget(1);
    bump.scoped(|s| {
        let _ = s.allocate(Layout::from_size_align(24, 1).unwrap());
    });
    set_budget(0);
    if bump.stats().count() != 2 {
        return None;
    }
    check!(bump.stats().current_chunk().unwrap().next().is_some(), "C03: the chunk acquired inside the scope is not retained behind the current one");
    Some(bump)
}

/// allocator level: ONE request (OP: 0 allocate, 1 grow of the newest block, 2 allocate_zeroed) that fits in no chunk,
/// base allocator refuses. (One operation per harness and no content window: the three-operation version with the
/// coherence walk needed 26 GB.)
fn fail_retained_body<St: BumpAllocatorSettings, const OP: u8>()
where
    VA: BaseAllocator<St::GuaranteedAllocated>,
{
    let Some(bump) = with_retained_chunk::<St>() else { return };
    let la = Layout::from_size_align(4, 2).unwrap();
    let Ok(a) = bump.allocate(la) else { return };
    let a = a.cast::<u8>();
    let chunk0 = addr(bump.stats().current_chunk().unwrap().chunk_start());
    let pos0 = addr(bump.stats().current_chunk().unwrap().bump_position());
    let allocated0 = bump.stats().allocated();
    // 200 bytes fit neither in the rest of chunk 1 (<= 16 B) nor in chunk 2 (80 B)
    let big = Layout::from_size_align(200, 1).unwrap();
    let failed = match OP {
        0 => bump.allocate(big).is_err(),
        1 => unsafe { bump.grow(a, la, Layout::from_size_align(200, 2).unwrap()).is_err() },
        _ => bump.allocate_zeroed(big).is_err(),
    };
    check!(failed, "C07: a request was served although the base allocator refuses memory");
    check!(grants() == 2 && bump.stats().count() == 2, "C07: a failed request changed the chunk list");
    let cur = bump.stats().current_chunk().unwrap();
    check!(addr(cur.chunk_start()) == chunk0, "C07: a failed request left the arena on another chunk");
    check!(addr(cur.bump_position()) == pos0, "C07: failed request moved the bump position");
    check!(bump.stats().allocated() == allocated0, "C07: a failed request changed the allocated byte count");
    kani::cover!(true, "END: harness ran to completion");
}

macro_rules! fail_retained_harness {
    ($name:ident, $S:ty, $op:literal) => {
        #[kani::proof]
        #[kani::unwind(6)]
        #[kani::stub(std::alloc::handle_alloc_error, crate::stubs::hae_stub)]
        fn $name() {
            fail_retained_body::<$S, $op>();
        }
    };
}
fail_retained_harness!(fail_retained_alloc_up1, S<1, true>, 0);
fail_retained_harness!(fail_retained_grow_up1, S<1, true>, 1);
fail_retained_harness!(fail_retained_alloc_down4, S<4, false>, 0);

/// collection level: a MutBumpVec / MutBumpVecRev in chunk 1 whose growth fails keeps length and contents, and
/// finalising it afterwards leaves a coherent arena (position inside its chunk)
macro_rules! fail_retained_vec_body {
    ($fname:ident, $Vec:ident, $rev:expr) => {
        fn $fname<St: BumpAllocatorSettings>()
        where
            VA: BaseAllocator<St::GuaranteedAllocated>,
        {
            let Some(mut bump) = with_retained_chunk::<St>() else { return };
            let chunk0 = addr(bump.stats().current_chunk().unwrap().chunk_start());
            let vals: [u8; 2] = kani::any();
            let mut v = $Vec::<u8, _>::new_in(&mut *bump);
            if v.try_push(vals[0]).is_err() || v.try_push(vals[1]).is_err() {
                return;
            }
            let data = v.as_ptr() as usize;
            let r = v.try_reserve(200);
            check!(r.is_err(), "C07: try_reserve succeeded although the base allocator refuses memory");
            check!(v.len() == 2 && v.as_ptr() as usize == data, "C07: a failed try_reserve changed the length or moved the buffer");
            let (x, y) = if $rev { (vals[1], vals[0]) } else { (vals[0], vals[1]) };
            check!(v[0] == x && v[1] == y, "C07: a failed try_reserve changed the contents");
            // before finalising (the library's own debug assertion would trip there): the arena is where it was
            check!(addr(v.allocator_stats().current_chunk().unwrap().chunk_start()) == chunk0, "C07: a failed growth left the arena on another chunk");
            let b = v.into_boxed_slice();
            check!(b.len() == 2 && b[0] == x && b[1] == y, "C07/C15: finalised slice differs from the pushed elements after a failed growth");
            let p = b.as_ptr() as usize;
            core::mem::forget(b);
            let cur = bump.stats().current_chunk().unwrap();
            check!(addr(cur.chunk_start()) == chunk0, "C07: a failed growth left the arena on another chunk");
            let (cs, ce) = (addr(cur.content_start()), addr(cur.content_end()));
            let pos = addr(cur.bump_position());
            check!(pos >= cs && pos <= ce, "C07/C10: bump position outside of its chunk after finalising a collection whose growth had failed");
            check!(p >= cs && p + 2 <= ce, "C07/C01: finalised slice outside the current chunk");
            assert_stats_coherent(bump.stats(), 32);
            // keeps working, disjoint from the finalised slice
            if let Ok(q) = bump.allocate(Layout::from_size_align(4, 1).unwrap()) {
                check!(disjoint(addr(q.cast()), 4, p, 2), "C01: a block allocated after the failure overlaps the finalised slice");
            }
            kani::cover!(true, "END: harness ran to completion");
        }
    };
}
fail_retained_vec_body!(fail_retained_mutvec_body, MutBumpVec, false);
fail_retained_vec_body!(fail_retained_mutvecrev_body, MutBumpVecRev, true);

macro_rules! fail_retained_vec_harness {
    ($name:ident, $body:ident, $S:ty) => {
        #[kani::proof]
        #[kani::unwind(6)]
        #[kani::stub(std::alloc::handle_alloc_error, crate::stubs::hae_stub)]
        fn $name() {
            $body::<$S>();
        }
    };
}
fail_retained_vec_harness!(fail_retained_mutvec_up1, fail_retained_mutvec_body, S<1, true>);
fail_retained_vec_harness!(fail_retained_mutvecrev_down1, fail_retained_mutvecrev_body, S<1, false>);
