//! C15, third round: (1) an exclusive-borrow vector whose allocator is a TRAIT OBJECT on an arena that has no chunk yet
//! (GUARANTEED_ALLOCATED = false) with elements whose size does not divide the free range ([u8; 3]); (2) in-place map of
//! an exclusive-borrow vector to a smaller element type, then finalising.
//! Oracle (C15): finalising advances the position by the size of the final contents plus at most the padding required
//! by the element alignment and the minimum alignment - here element alignment 1 and MIN_ALIGN 1, so by EXACTLY the
//! contents - and yields exactly the pushed elements.
use crate::check;
use crate::common::*;
use bump_scope::alloc::Allocator;
use bump_scope::traits::MutBumpAllocatorCoreScope;
use bump_scope::{Bump, MutBumpVec, MutBumpVecRev};
use core::alloc::Layout;
use core::mem::ManuallyDrop;

fn dyn_unallocated<const UP: bool, const REV: bool, const VIA_BUMP: bool>() {
    let bump: Bump<VA, S<1, UP, false>> = Bump::unallocated();
    let mut bump = ManuallyDrop::new(bump);
    let vals: [[u8; 3]; 2] = kani::any();
    check!(bump.stats().count() == 0 && bump.stats().allocated() == 0, "C10: an unallocated arena reports chunks");
    set_budget(1);
    let (p, n, first, second) = {
        // the concrete type behind the trait object: BumpScope (as_mut_scope) or `&mut Bump` (whose impl forwards to
        // Bump's own impl of the core trait - a separate set of forwarding methods, fourth-round seeded change)
        let mut via_bump: &mut Bump<VA, S<1, UP, false>> = &mut *bump;
        let dy: &mut dyn MutBumpAllocatorCoreScope = if VIA_BUMP { &mut via_bump } else { via_bump.as_mut_scope() };
        if REV {
            let Ok(mut v) = MutBumpVecRev::<[u8; 3], _>::try_with_capacity_in(2, dy) else { return };
            set_budget(0);
            if v.try_push(vals[0]).is_err() || v.try_push(vals[1]).is_err() {
                return;
            }
            let s = v.into_slice();
            (s.as_ptr() as usize, s.len(), s[1], s[0])
        } else {
            let Ok(mut v) = MutBumpVec::<[u8; 3], _>::try_with_capacity_in(2, dy) else { return };
            set_budget(0);
            if v.try_push(vals[0]).is_err() || v.try_push(vals[1]).is_err() {
                return;
            }
            let s = v.into_slice();
            (s.as_ptr() as usize, s.len(), s[0], s[1])
        }
    };
    set_budget(0);
    check!(n == 2 && first == vals[0] && second == vals[1], "C15: finalised slice differs from the pushed elements");
    check!(bump.stats().count() == 1, "C15: creating the vector did not create exactly the first chunk");
    let cur = bump.stats().current_chunk().unwrap();
    check!(bump.stats().allocated() == 6, "C15: finalising advanced the position by more than contents + padding (trait-object allocator, first chunk created by the vector)");
    let (cs, ce) = (addr(cur.content_start()), addr(cur.content_end()));
    check!(p >= cs && p + 6 <= ce, "C15/C01: finalised slice outside the chunk");
    check!(if UP { p == cs } else { p + 6 == ce }, "C15: finalised slice is not at the bump side end of the free range");
    kani::cover!(true, "END: harness ran to completion");
}

/// MutBumpVec<[u8; 3]> with 2 elements after a symbolic filler, map_in_place to [u8; 2], into_slice
fn map_in_place_finalise<const UP: bool>() {
    set_budget(1);
    let Ok(bump) = Bump::<VA, S<1, UP>>::try_new() else { return };
    let mut bump = ManuallyDrop::new(bump);
    set_budget(0);
    let f: usize = kani::any();
    kani::assume(f <= 5);
    let Ok(_) = bump.allocate(Layout::from_size_align(f, 1).unwrap()) else { return };
    let alloc0 = bump.stats().allocated();
    let vals: [[u8; 3]; 2] = kani::any();
    let (n, a, b) = {
        let Ok(mut v) = MutBumpVec::<[u8; 3], _>::try_with_capacity_in(2, &mut *bump) else { return };
        if v.try_push(vals[0]).is_err() || v.try_push(vals[1]).is_err() {
            return;
        }
        let w = v.map_in_place(|x| [x[0], x[2]]);
        let s = w.into_slice();
        (s.len(), s[0], s[1])
    };
    check!(n == 2 && a == [vals[0][0], vals[0][2]] && b == [vals[1][0], vals[1][2]], "C15/C16: in-place map changed element count, order or values");
    let advance = bump.stats().allocated() - alloc0;
    kani::cover!(advance == 4, "finalised without waste");
    check!(advance >= 4, "C15: finalising advanced the position by less than the contents");
    check!(advance <= 4, "C15: finalising a MutBumpVec after map_in_place advanced the position by more than contents + padding");
    kani::cover!(true, "END: harness ran to completion");
}

macro_rules! h {
    ($name:ident, $body:expr) => {
        #[kani::proof]
        #[kani::unwind(5)]
        #[kani::stub(std::alloc::handle_alloc_error, crate::stubs::hae_stub)]
        #[kani::stub(core::ptr::copy, crate::stubs::copy_stub)]
        #[kani::stub(core::ptr::copy_nonoverlapping, crate::stubs::copy_stub)]
        fn $name() {
            $body;
        }
    };
}
h!(mutvec_dyn_unallocated_up1, dyn_unallocated::<true, false, false>());
h!(mutvec_dyn_unallocated_down1, dyn_unallocated::<false, false, false>());
h!(mutvecrev_dyn_unallocated_up1, dyn_unallocated::<true, true, false>());
h!(mutvecrev_dyn_unallocated_down1, dyn_unallocated::<false, true, false>());
h!(mutvec_map_in_place_up1, map_in_place_finalise::<true>());
h!(mutvec_map_in_place_down1, map_in_place_finalise::<false>());
h!(mutvecrev_dyn_bump_unallocated_up1, dyn_unallocated::<true, true, true>());
h!(mutvecrev_dyn_bump_unallocated_down1, dyn_unallocated::<false, true, true>());
h!(mutvec_dyn_bump_unallocated_down1, dyn_unallocated::<false, false, true>());
