//! C05 — every chunk is returned to the base allocator exactly once and fits; reset keeps the largest chunk;
//! reset_to_start / scope exits release nothing; an unused unallocated Bump never calls the base allocator.
//! The logging stub (`common::va_deallocate`) checks every release against the grant log.
use crate::check;
use crate::common::*;
use bump_scope::alloc::Allocator;
use bump_scope::settings::BumpAllocatorSettings;
use bump_scope::{BaseAllocator, Bump};

/// history: new -> two symbolic allocations that may create chunks 2 and 3 (symbolic failure mask over the base
/// calls) -> END in {drop, reset + drop, reset_to_start + drop, scope exit + drop, into_raw/from_raw + drop}
fn release_body<A, St: BumpAllocatorSettings, const END: u8, const L1: usize, const FORCE: bool>(max_chunks: usize)
where
    A: BaseAllocator<St::GuaranteedAllocated> + Default,
{
    // the symbolic failure mask is part of the upward harnesses only (downward it exceeds 17 GB)
    if St::UP {
        unsafe { FAIL_MASK = kani::any() };
    }
    set_budget(1);
    let Ok(mut bump) = Bump::<A, St>::try_new() else {
        check!(grants() == 0, "C05: a failed constructor left a grant behind");
        return;
    };
    set_budget(0);
    // one allocation per possible extra chunk; sizes symbolic so that the solver decides whether a chunk is needed
    // FORCE: a concrete request that cannot fit in the first chunk (downward / big-header shapes: a symbolic
    // "may or may not need a chunk" exceeds 19 GB there); otherwise the solver decides whether chunk 2 is needed
    let l1 = if FORCE { core::alloc::Layout::from_size_align(L1, 1).unwrap() } else { any_layout(L1, 4) };
    set_budget(1);
    let r1 = bump.allocate(l1);
    set_budget(0);
    let n_after_1 = bump.stats().count();
    if max_chunks >= 3 {
        let l2 = any_layout(96, 4);
        set_budget(1);
        let r2 = bump.allocate(l2);
        set_budget(0);
        if r2.is_err() {
            // a failed chunk creation links nothing
            check!(bump.stats().count() == n_after_1, "C05/C07: a failed allocation changed the chunk list");
        }
    }
    let n = bump.stats().count();
    kani::cover!(n == 1, "[c1] one chunk");
    kani::cover!(n == 2, "[c2] two chunks");
    kani::cover!(n == 3, "[c3] three chunks");
    check!(live_grants() == n && grants() == n, "C05: chunks and live grants differ");
    let biggest = {
        let mut it = bump.stats().big_to_small();
        it.next().unwrap().size()
    };
    match END {
        0 => {}
        1 => {
            bump.reset();
            check!(bump.stats().count() == 1, "C05: reset did not keep exactly one chunk");
            check!(live_grants() == 1 && released() == n - 1, "C05: reset did not release all but one chunk");
            check!(bump.stats().size() == biggest, "C05: reset did not keep the largest chunk");
            check!(bump.stats().allocated() == 0, "C05/C03: reset left allocated bytes");
        }
        2 => {
            bump.reset_to_start();
            check!(bump.stats().count() == n && live_grants() == n && released() == 0, "C05: reset_to_start released a chunk");
            check!(bump.stats().allocated() == 0, "C05/C03: reset_to_start left allocated bytes");
        }
        3 => {
            let l3 = any_layout(16, 3);
            let before = live_grants();
            bump.scoped(|s| {
                let _ = s.allocate(l3);
            });
            check!(live_grants() == before && released() == 0, "C05: leaving a scope released a chunk");
        }
        _ => {
            let raw = bump.into_raw();
            check!(released() == 0, "C05: into_raw released a chunk");
            bump = unsafe { Bump::from_raw(raw) };
            check!(bump.stats().count() == n, "C05: from_raw lost chunks");
        }
    }
    let remaining = live_grants();
    drop(bump);
    check!(live_grants() == 0, "C05: a chunk was not returned to the base allocator when the Bump was dropped");
    check!(released() == grants(), "C05: number of releases differs from the number of grants");
    kani::cover!(remaining >= 2, "[several] dropped an arena with several chunks");
    kani::cover!(true, "END: harness ran to completion");
}

macro_rules! release_harness {
    ($name:ident, $A:ty, $S:ty, $end:literal, $chunks:expr, $l1:literal, $force:literal) => {
        #[kani::proof]
        #[kani::unwind(7)]
        #[kani::stub(std::alloc::handle_alloc_error, crate::stubs::hae_stub)]
        fn $name() {
            release_body::<$A, $S, $end, $l1, $force>($chunks);
        }
    };
}
release_harness!(release_drop_up1_c3, VA<0>, S<1, true>, 0, 3, 24, false);
release_harness!(release_reset_up1_c3, VA<0>, S<1, true>, 1, 3, 24, false);
release_harness!(release_reset_to_start_up1_c2, VA<0>, S<1, true>, 2, 2, 24, false);
release_harness!(release_reset_to_start_up1_c3, VA<0>, S<1, true>, 2, 3, 24, false);
release_harness!(release_scope_up1_c2, VA<0>, S<1, true>, 3, 2, 24, false);
release_harness!(release_raw_up1_c2, VA<0>, S<1, true>, 4, 2, 24, false);
release_harness!(release_drop_down1_c2, VA<0>, S<1, false>, 0, 2, 24, true);
release_harness!(release_reset_down1_c2, VA<0>, S<1, false>, 1, 2, 24, true);
release_harness!(release_drop_up1_extra8_c2, VA<8>, S<1, true>, 0, 2, 24, false);
release_harness!(release_reset_down1_extra24_c2, VA<24>, S<1, false>, 1, 2, 40, true);
release_harness!(release_drop_over_up1_c2, VAOver, S<1, true>, 0, 2, 64, true);
release_harness!(release_reset_over_down1_c2, VAOver, S<1, false>, 1, 2, 80, true);
release_harness!(release_drop_stateful_down1_c2, VAStateful, S<1, false>, 0, 2, 16, true);

/// a Bump that was never used in unallocated mode never calls the base allocator
#[kani::proof]
#[kani::unwind(7)]
#[kani::stub(std::alloc::handle_alloc_error, crate::stubs::hae_stub)]
fn release_unallocated_unused() {
    set_budget(1);
    {
        let mut bump: Bump<VA, S<1, true, false>> = Bump::unallocated();
        let kind: u8 = kani::any();
        match kind {
            0 => bump.reset(),
            1 => bump.reset_to_start(),
            2 => {
                let _ = bump.stats().allocated();
            }
            3 => bump.scoped(|s| {
                let _ = s.stats().count();
            }),
            _ => {
                let cp = bump.checkpoint();
                unsafe { bump.reset_to(cp) };
            }
        }
        check!(bump.stats().count() == 0, "C10: unallocated arena reports chunks");
    }
    check!(calls() == 0, "C05: an unused unallocated Bump called the base allocator");
    kani::cover!(true, "END: harness ran to completion");
}
