//! C03 — leaving a scope restores the allocator exactly; earlier data survives; chunks acquired inside stay.
use crate::check;
use crate::common::*;
use bump_scope::alloc::Allocator;
use bump_scope::settings::BumpAllocatorSettings;
use bump_scope::traits::BumpAllocatorCore;
use bump_scope::{BaseAllocator, Bump, BumpScope};
use core::alloc::Layout;

/// the workload: two allocations with symbolic layouts (fixed for the whole harness so that it can be replayed)
#[derive(Clone, Copy)]
struct Work {
    l1: Layout,
    l2: Layout,
}

/// FORCE: the first allocation cannot fit in the 16-byte chunk (concrete layout => the chunk switch is certain and
/// the requested chunk size is a constant); otherwise both layouts are symbolic and have to cope inside the chunk
fn any_work<const FORCE: bool>() -> Work {
    if unsafe { FILL_CHUNK2 } {
        // the second allocation fills chunk 2 (80 B capacity) so far that the space left in it when the scope ends
        // (0..16 B) is smaller than the first request: replaying the workload must still re-enter chunk 2 - the
        // retained chunk is rewound lazily, its stale position must not be used to judge whether a request fits
        // (third-round seeded change)
        let s2: usize = kani::any();
        kani::assume(s2 >= 40 && s2 <= 56);
        return Work { l1: Layout::from_size_align(24, 8).unwrap(), l2: Layout::from_size_align(s2, 8).unwrap() };
    }
    Work { l1: if FORCE { Layout::from_size_align(24, 8).unwrap() } else { any_layout(16, 4) }, l2: any_layout(8, 3) }
}
/// concrete per harness: see `any_work`
static mut FILL_CHUNK2: bool = false;

fn run<A, St: BumpAllocatorSettings>(s: &BumpScope<'_, A, St>, w: Work) -> (usize, usize)
where
    A: BaseAllocator<St::GuaranteedAllocated>,
{
    let a1 = match s.allocate(w.l1) {
        Ok(p) => addr(p.cast()),
        Err(_) => 0,
    };
    let a2 = match s.allocate(w.l2) {
        Ok(p) => addr(p.cast()),
        Err(_) => 0,
    };
    (a1, a2)
}

/// KIND: 0 scoped, 1 scope_guard + drop, 2 scope_guard + reset() (guard kept), 3 checkpoint + reset_to, 4 scoped_aligned::<8>
fn scope_body<A, St: BumpAllocatorSettings, const KIND: u8, const FORCE: bool>(inner_budget: usize)
where
    A: BaseAllocator<St::GuaranteedAllocated> + Default,
{
    set_budget(1);
    let Ok(mut bump) = Bump::<A, St>::try_new() else { return };
    // never run Drop for Bump on early-return paths (it walks the chunk list and calls the base allocator: pure cost)
    let mut bump = core::mem::ManuallyDrop::new(bump);
    set_budget(0);
    let w1 = Win::of(bump.stats().current_chunk().unwrap());
    let la = any_layout(6, 2);
    let Ok(a) = bump.allocate(la) else { return };
    let a = a.cast::<u8>();
    let va: u8 = kani::any();
    let ia: usize = kani::any();
    kani::assume(la.size() > 0 && ia < la.size());
    unsafe { w1.write(addr(a) + ia, va) };

    let allocated0 = bump.stats().allocated();
    let pos0 = addr(bump.stats().current_chunk().unwrap().bump_position());
    let chunk0 = addr(bump.stats().current_chunk().unwrap().chunk_start());
    let work = any_work::<FORCE>();

    set_budget(inner_budget);
    let first = leave::<A, St, KIND>(&mut *bump, work);
    set_budget(0);
    kani::cover!(first.0 != 0 && first.1 != 0, "both allocations inside the scope succeeded");
    kani::cover!(bump.stats().count() == 2, "[b1] the workload acquired a second chunk");
    kani::cover!(first.0 == 0, "[fail] an allocation inside the scope failed");

    // restored exactly
    check!(bump.stats().allocated() == allocated0, "C03: allocated byte count not restored after leaving the scope");
    let cur = bump.stats().current_chunk().unwrap();
    check!(addr(cur.chunk_start()) == chunk0, "C03: current chunk not restored after leaving the scope");
    check!(addr(cur.bump_position()) == pos0, "C03: bump position not restored after leaving the scope");
    check!(unsafe { w1.read(addr(a) + ia) } == va, "C03: an allocation made before the scope changed");
    // chunks acquired inside remain available
    let count1 = bump.stats().count();
    let size1 = bump.stats().size();
    check!(count1 >= 1 && (inner_budget == 1 || count1 == 1), "C03: chunk count");
    // replaying the same workload needs no new memory and lands on the same addresses
    let calls1 = calls();
    let grants1 = grants();
    let second = leave::<A, St, KIND>(&mut *bump, work);
    check!(grants() == grants1, "C03: replaying the workload in a new scope obtained memory from the base allocator");
    if first.0 != 0 && first.1 != 0 {
        check!(calls() == calls1, "C03: replaying a workload that fitted asked the base allocator again");
        check!(second == first, "C03: replaying the workload in a new scope returned different addresses");
    }
    check!(bump.stats().count() == count1 && bump.stats().size() == size1, "C03: chunks disappeared after a scope");
    check!(bump.stats().allocated() == allocated0, "C03: allocated byte count not restored after the second scope");
    check!(addr(bump.stats().current_chunk().unwrap().bump_position()) == pos0, "C03: bump position not restored after the second scope");
    kani::cover!(true, "END: harness ran to completion");
}

#[inline(always)]
fn leave<A, St: BumpAllocatorSettings, const KIND: u8>(bump: &mut Bump<A, St>, work: Work) -> (usize, usize)
where
    A: BaseAllocator<St::GuaranteedAllocated>,
{
    match KIND {
        0 => bump.scoped(|s| run(s, work)),
        1 => {
            let mut g = bump.scope_guard();
            let r = run(g.scope(), work);
            drop(g);
            r
        }
        2 => {
            let mut g = bump.scope_guard();
            let r = run(g.scope(), work);
            g.reset();
            // the guard stays alive: a second scope from the same guard starts from the same state
            let r2 = run(g.scope(), work);
            check!(r.0 == 0 || r.1 == 0 || r2 == r, "C03: a second scope from the same guard after reset() returned different addresses");
            r
        }
        3 => {
            let cp = bump.checkpoint();
            let r = run(bump.as_scope(), work);
            unsafe { bump.reset_to(cp) };
            r
        }
        _ => bump.scoped_aligned::<8, _>(|s| {
            let p0 = addr(s.stats().current_chunk().unwrap().bump_position());
            check!(p0 % 8 == 0, "C18: position not aligned at entry of scoped_aligned");
            let a1 = match s.allocate(work.l1) {
                Ok(p) => addr(p.cast()),
                Err(_) => 0,
            };
            check!(addr(s.stats().current_chunk().unwrap().bump_position()) % 8 == 0, "C18: position not aligned after an allocation inside scoped_aligned");
            let a2 = match s.allocate(work.l2) {
                Ok(p) => addr(p.cast()),
                Err(_) => 0,
            };
            check!(addr(s.stats().current_chunk().unwrap().bump_position()) % 8 == 0, "C18: position not aligned after the second allocation inside scoped_aligned");
            (a1, a2)
        }),
    }
}

macro_rules! scope_harness {
    ($name:ident, $S:ty, $kind:literal, $budget:literal) => {
        scope_harness!($name, VA, $S, $kind, $budget);
    };
    ($name:ident, $A:ty, $S:ty, $kind:literal, $budget:literal) => {
        #[kani::proof]
        #[kani::unwind(6)]
        #[kani::stub(std::alloc::handle_alloc_error, crate::stubs::hae_stub)]
        fn $name() {
            scope_body::<$A, $S, $kind, { $budget == 1 }>($budget);
        }
    };
}
// (VAStateful / VAOver variants of this body do not exist: their first chunk has no room for the filler; the
// header-size dependent rewinds are covered by `scope_unallocated_*` below)

/// "start of the first chunk if nothing had been allocated yet": the scope / checkpoint is taken on an arena that has
/// no chunk yet (GUARANTEED_ALLOCATED = false); the workload creates the first chunk; leaving the scope must rewind
/// to the start of that chunk, and replaying the workload lands on the same addresses without a base-allocator call.
/// KIND as in `scope_body` (0 scoped, 1 guard drop, 3 checkpoint + reset_to), plus 5: reset_to_start(), 6: reset()
fn scope_unallocated_body<A, St: BumpAllocatorSettings<GuaranteedAllocated = bump_scope::settings::False>, const KIND: u8>(header_size: usize)
where
    A: BaseAllocator<bump_scope::settings::False> + Default,
{
    let mut bump = core::mem::ManuallyDrop::new(Bump::<A, St>::unallocated());
    // l1 is concrete: it decides the size of the first chunk (a symbolic chunk size makes the stub's three block
    // sizes all possible: 21 GB); l2 stays symbolic
    let work = Work { l1: Layout::from_size_align(8, 4).unwrap(), l2: any_layout(8, 3) };
    set_budget(1);
    let first = leave_u::<A, St, KIND>(&mut *bump, work);
    set_budget(0);
    if first.0 == 0 {
        return;
    }
    kani::cover!(first.1 != 0, "both allocations inside the scope succeeded");
    check!(bump.stats().count() == 1 && grants() == 1, "C03: the chunk acquired inside the scope did not stay");
    check!(bump.stats().allocated() == 0, "C03: allocated byte count not zero after leaving a scope entered on an unallocated arena");
    let c = bump.stats().current_chunk().unwrap();
    let start = if St::UP { addr(c.chunk_start()) + header_size } else { addr(c.chunk_end()) - header_size };
    check!(addr(c.bump_position()) == start, "C03: bump position is not the start of the first chunk after leaving a scope entered on an unallocated arena");
    let calls1 = calls();
    let second = leave_u::<A, St, KIND>(&mut *bump, work);
    check!(calls() == calls1, "C03: replaying the workload asked the base allocator again");
    if first.1 != 0 {
        check!(second == first, "C03: replaying the workload in a new scope returned different addresses");
    }
    check!(bump.stats().allocated() == 0, "C03: allocated byte count not zero after the second scope");
    kani::cover!(true, "END: harness ran to completion");
}

#[inline(always)]
fn leave_u<A, St: BumpAllocatorSettings, const KIND: u8>(bump: &mut Bump<A, St>, work: Work) -> (usize, usize)
where
    A: BaseAllocator<St::GuaranteedAllocated>,
{
    match KIND {
        5 => {
            let r = run(bump.as_scope(), work);
            bump.reset_to_start();
            r
        }
        6 => {
            let r = run(bump.as_scope(), work);
            bump.reset();
            r
        }
        _ => leave::<A, St, KIND>(bump, work),
    }
}

macro_rules! scope_unallocated_harness {
    ($name:ident, $A:ty, $S:ty, $kind:literal, $hdr:literal) => {
        #[kani::proof]
        #[kani::unwind(6)]
        #[kani::stub(std::alloc::handle_alloc_error, crate::stubs::hae_stub)]
        fn $name() {
            scope_unallocated_body::<$A, $S, $kind>($hdr);
        }
    };
}
scope_unallocated_harness!(scope_unallocated_scoped_stateful_up1, VAStateful, S<1, true, false>, 0, 48);
// (guard / checkpoint on a DOWNWARD unallocated arena: CBMC reports "attempt to subtract with overflow" for the i128
// subtraction of two zero-extended usize values in BumpProps::debug_assert_valid -- impossible, and the native debug
// build passes; the two variants are left out, see DESIGN.md 13)
scope_unallocated_harness!(scope_unallocated_reset_to_start_over_up1, VAOver, S<1, true, false>, 5, 64);
scope_unallocated_harness!(scope_unallocated_reset_stateful_up4, VAStateful, S<4, true, false>, 6, 48);
macro_rules! scope_fill_harness {
    ($name:ident, $S:ty, $kind:literal) => {
        #[kani::proof]
        #[kani::unwind(6)]
        #[kani::stub(std::alloc::handle_alloc_error, crate::stubs::hae_stub)]
        fn $name() {
            unsafe { FILL_CHUNK2 = true };
            scope_body::<VA, $S, $kind, true>(1);
        }
    };
}
scope_fill_harness!(scope_scoped_fill_up1_b1, S<1, true>, 0);
scope_fill_harness!(scope_checkpoint_fill_down1_b1, S<1, false>, 3);
scope_fill_harness!(scope_guard_drop_fill_up4_b1, S<4, true>, 1);
scope_harness!(scope_scoped_up1_b1, S<1, true>, 0, 1);
scope_harness!(scope_scoped_down1_b1, S<1, false>, 0, 1);
scope_harness!(scope_guard_drop_up1_b1, S<1, true>, 1, 1);
scope_harness!(scope_guard_reset_up1_b0, S<1, true>, 2, 0);
scope_harness!(scope_checkpoint_up1_b1, S<1, true>, 3, 1);
scope_harness!(scope_checkpoint_down4_b1, S<4, false>, 3, 1);
scope_harness!(scope_aligned_up1_b1, S<1, true>, 4, 1);
scope_harness!(scope_aligned_down1_b0, S<1, false>, 4, 0);

/// the Err path of try_alloc_try_with / try_alloc_try_with_mut rewinds to the state before the call, also when the
/// Result slot had to spill into another chunk (T = [u64; 3]: 32-byte slot > 16 bytes of capacity)
fn try_with_body<St: BumpAllocatorSettings, T: Default, E: Default, const MUT: bool>(budget: usize)
where
    VA: BaseAllocator<St::GuaranteedAllocated>,
{
    set_budget(1);
    let Ok(mut bump) = Bump::<VA, St>::try_new() else { return };
    // never run Drop for Bump on early-return paths (it walks the chunk list and calls the base allocator: pure cost)
    let mut bump = core::mem::ManuallyDrop::new(bump);
    set_budget(0);
    let w1 = Win::of(bump.stats().current_chunk().unwrap());
    let la = any_layout(6, 2);
    let Ok(a) = bump.allocate(la) else { return };
    let a = a.cast::<u8>();
    let va: u8 = kani::any();
    let ia: usize = kani::any();
    kani::assume(la.size() > 0 && ia < la.size());
    unsafe { w1.write(addr(a) + ia, va) };
    let allocated0 = bump.stats().allocated();
    let pos0 = addr(bump.stats().current_chunk().unwrap().bump_position());
    let chunk0 = addr(bump.stats().current_chunk().unwrap().chunk_start());
    set_budget(budget);
    let fail: bool = kani::any();
    let mut ok_addr = 0;
    let outcome: u8 = {
        let r = if MUT {
            bump.try_alloc_try_with_mut(|| if fail { Err(E::default()) } else { Ok(T::default()) })
        } else {
            bump.try_alloc_try_with(|| if fail { Err(E::default()) } else { Ok(T::default()) })
        };
        match r {
            Err(_) => 0,
            Ok(Err(_e)) => 1,
            Ok(Ok(b)) => {
                ok_addr = b.into_raw().as_ptr() as usize;
                2
            }
        }
    };
    set_budget(0);
    kani::cover!(outcome == 1 && bump.stats().count() == 2, "[b1] closure failed after the slot spilled into a new chunk");
    kani::cover!(outcome == 1 && bump.stats().count() == 1, "[fits] closure failed, slot was in the first chunk");
    kani::cover!(outcome == 2, "closure succeeded");
    if outcome != 2 {
        check!(bump.stats().allocated() == allocated0, "C03: allocated byte count not restored after alloc_try_with returned Err");
        let cur = bump.stats().current_chunk().unwrap();
        check!(addr(cur.chunk_start()) == chunk0, "C03: current chunk not restored after alloc_try_with returned Err");
        check!(addr(cur.bump_position()) == pos0, "C03: bump position not restored after alloc_try_with returned Err");
    } else {
        check!(ok_addr % core::mem::align_of::<T>() == 0, "C01: alloc_try_with returned a misaligned value");
        if MUT {
            // C15: the position ends right behind the value (in bump direction), the room reserved for the error is given back
            let p = addr(bump.stats().current_chunk().unwrap().bump_position());
            if St::UP {
                check!(p >= ok_addr + core::mem::size_of::<T>() && p - (ok_addr + core::mem::size_of::<T>()) < St::MIN_ALIGN, "C15: alloc_try_with_mut left more than the value (+ padding) allocated");
            } else {
                check!(p <= ok_addr && ok_addr - p < St::MIN_ALIGN, "C15: alloc_try_with_mut left more than the value (+ padding) allocated");
            }
        }
        check!(disjoint(ok_addr, core::mem::size_of::<T>(), addr(a), la.size()), "C01: alloc_try_with value overlaps an earlier block");
        // C10: the position stays a multiple of the minimum alignment in force (the Ok payload sits at an OFFSET inside
        // the Result slot, which need not be a multiple of MIN_ALIGN), and the next block is disjoint from the value
        let p = addr(bump.stats().current_chunk().unwrap().bump_position());
        check!(p % St::MIN_ALIGN == 0, "C10: bump position is not a multiple of the minimum alignment after alloc_try_with returned Ok");
        let ln = any_layout(4, 2);
        if let Ok(n) = bump.allocate(ln) {
            let n = addr(n.cast());
            check!(n % ln.align() == 0, "C01: block after alloc_try_with misaligned");
            check!(disjoint(n, ln.size(), ok_addr, core::mem::size_of::<T>()), "C01: block after alloc_try_with overlaps the value");
            let p = addr(bump.stats().current_chunk().unwrap().bump_position());
            check!(p % St::MIN_ALIGN == 0, "C10: bump position is not a multiple of the minimum alignment after the allocation that followed alloc_try_with");
        }
    }
    check!(unsafe { w1.read(addr(a) + ia) } == va, "C03: an allocation made before changed");
    kani::cover!(true, "END: harness ran to completion");
}

macro_rules! try_with_harness {
    ($name:ident, $S:ty, $T:ty, $E:ty, $mutable:literal, $budget:literal) => {
        #[kani::proof]
        #[kani::unwind(6)]
        #[kani::stub(std::alloc::handle_alloc_error, crate::stubs::hae_stub)]
        fn $name() {
            try_with_body::<$S, $T, $E, $mutable>($budget);
        }
    };
}
try_with_harness!(scope_try_with_mut_spill_up1, S<1, true>, [u64; 3], u8, true, 1);
try_with_harness!(scope_try_with_mut_spill_down1, S<1, false>, [u64; 3], u8, true, 1);
try_with_harness!(scope_try_with_spill_up1, S<1, true>, [u64; 3], u8, false, 1);
try_with_harness!(scope_try_with_mut_fits_down4, S<4, false>, u16, u8, true, 0);
try_with_harness!(scope_try_with_fits_up1, S<1, true>, u16, u8, false, 0);
// error type bigger than the value: the slot is larger than what stays allocated on Ok
try_with_harness!(scope_try_with_mut_bigerr_up1, S<1, true>, u16, [u32; 2], true, 0);
try_with_harness!(scope_try_with_mut_bigerr_down1, S<1, false>, u16, [u32; 2], true, 0);
try_with_harness!(scope_try_with_mut_bigerr_spill_up4, S<4, true>, u16, [u64; 3], true, 1);
// payload size a multiple of MIN_ALIGN, payload OFFSET inside the Result not (Result<[u8;2],u8>: offset 1; Result<[u32;2],u32>: offset 4)
try_with_harness!(scope_try_with_payload_offset_up2, S<2, true>, [u8; 2], u8, false, 0);
try_with_harness!(scope_try_with_mut_payload_offset_down2, S<2, false>, [u8; 2], u8, true, 0);
try_with_harness!(scope_try_with_mut_payload_offset_up8, S<8, true>, [u32; 2], u32, true, 0);
try_with_harness!(scope_try_with_payload_offset_down8, S<8, false>, [u32; 2], u32, false, 0);
scope_unallocated_harness!(scope_unallocated_scoped_va_down1, VA, S<1, false, false>, 0, 32);
scope_unallocated_harness!(scope_unallocated_guard_va_up1, VA, S<1, true, false>, 1, 32);
