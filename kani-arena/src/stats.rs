//! C10 — arena bookkeeping and reported statistics are coherent; type-erased statistics equal the typed ones.
use crate::check;
use crate::common::*;
use bump_scope::alloc::Allocator;
use bump_scope::settings::BumpAllocatorSettings;
use bump_scope::stats::{AnyStats, Stats};
use bump_scope::traits::BumpAllocatorCore;
use bump_scope::{BaseAllocator, Bump};

/// field-by-field comparison of typed and type-erased statistics (<= 2 chunks); each field has its own check so
/// that a finding is keyed per field
fn assert_any_equals_typed<A, St: BumpAllocatorSettings>(typed: Stats<'_, A, St>, any: AnyStats<'_>) {
    check!(any.count() == typed.count(), "C10: any_stats count differs from typed stats");
    check!(any.size() == typed.size(), "C10: any_stats size differs from typed stats");
    check!(any.capacity() == typed.capacity(), "C10: any_stats capacity differs from typed stats");
    check!(any.allocated() == typed.allocated(), "C10: any_stats allocated differs from typed stats");
    check!(any.remaining() == typed.remaining(), "C10: any_stats remaining differs from typed stats");
    match (typed.current_chunk(), any.current_chunk()) {
        (None, None) => {}
        (Some(t), Some(a)) => {
            check!(a.chunk_start() == t.chunk_start(), "C10: any chunk_start differs from typed");
            check!(a.chunk_end() == t.chunk_end(), "C10: any chunk_end differs from typed");
            check!(a.content_start() == t.content_start(), "C10: any content_start differs from typed");
            check!(a.content_end() == t.content_end(), "C10: any content_end differs from typed");
            check!(a.bump_position() == t.bump_position(), "C10: any bump_position differs from typed");
            check!(a.size() == t.size() && a.capacity() == t.capacity() && a.allocated() == t.allocated() && a.remaining() == t.remaining(), "C10: any chunk numbers differ from typed");
            check!(a.prev().is_some() == t.prev().is_some() && a.next().is_some() == t.next().is_some(), "C10: any chunk neighbours differ from typed");
        }
        _ => panic!("C10: any_stats and typed stats disagree on whether there is a current chunk"),
    }
}

/// new -> one allocation (symbolic in the first chunk, or a concrete one that forces chunk 2) -> PART:
/// 0: bookkeeping identities; 1: type-erased == typed (any_stats() and From); 2: a follow-up operation in
/// {scope exit, reset_to_start, reset, deallocate} then the identities; 3: a claim: handle reports zeros, guard is coherent;
/// 4: the follow-up operations of 2 (a chunk switch before them leaves a *non-current* chunk with a stale position), then
/// type-erased == typed
static mut SMALL_REQ: bool = false;

fn stats_body<A, St: BumpAllocatorSettings, const PART: u8>(header_size: usize, budget: usize)
where
    A: BaseAllocator<St::GuaranteedAllocated> + Default,
{
    set_budget(1);
    let Ok(bump) = Bump::<A, St>::try_new() else { return };
    let mut bump = core::mem::ManuallyDrop::new(bump);
    set_budget(0);
    // with budget the request is concrete and cannot fit in the first chunk (chunk switch certain)
    // SMALL_REQ (stateful / over-aligned allocators whose first chunk has no capacity): a 1-byte request already forces
    // chunk 2, whose size is then decided by the growth rule alone (third-round seeded change: doubling the capacity
    // instead of the size makes chunk 2 as small as the request allows)
    let l = if unsafe { SMALL_REQ } {
        core::alloc::Layout::from_size_align(1, 1).unwrap()
    } else if budget == 1 {
        core::alloc::Layout::from_size_align(24, 4).unwrap()
    } else {
        any_layout(24, 4)
    };
    set_budget(budget);
    let r = bump.allocate(l);
    set_budget(0);
    kani::cover!(r.is_ok() && bump.stats().count() == 2, "[b1] second chunk created");
    kani::cover!(r.is_ok() && bump.stats().count() == 1, "[fits] allocation in the first chunk");
    kani::cover!(r.is_err(), "[b0] allocation failed");
    match PART {
        4 => {
            let then: u8 = kani::any();
            kani::assume(then < 3);
            match then {
                0 => bump.scoped(|s| {
                    let _ = s.allocate(any_layout(8, 2));
                }),
                1 => bump.reset_to_start(),
                _ => {
                    if let Ok(p) = r {
                        unsafe { bump.deallocate(p.cast(), l) };
                    }
                }
            }
            kani::cover!(bump.stats().count() == 2 && bump.stats().current_chunk().map_or(false, |c| c.next().is_some()), "[stale] the current chunk is not the newest one");
            assert_any_equals_typed(bump.stats(), bump.any_stats());
        }
        0 => assert_stats_coherent(bump.stats(), header_size),
        1 => {
            assert_any_equals_typed(bump.stats(), bump.any_stats());
            assert_any_equals_typed(bump.stats(), AnyStats::from(bump.stats()));
        }
        2 => {
            let then: u8 = kani::any();
            kani::assume(then < 4);
            match then {
                0 => bump.scoped(|s| {
                    let _ = s.allocate(any_layout(8, 2));
                }),
                1 => bump.reset_to_start(),
                2 => bump.reset(),
                _ => {
                    if let Ok(p) = r {
                        unsafe { bump.deallocate(p.cast(), l) };
                    }
                }
            }
            assert_stats_coherent(bump.stats(), header_size);
        }
        _ => {
            let g = bump.claim();
            let s = bump.stats();
            check!(s.count() == 0 && s.size() == 0 && s.capacity() == 0 && s.allocated() == 0 && s.remaining() == 0, "C10: claimed arena reports non-zero statistics");
            let a = bump.any_stats();
            check!(a.count() == 0 && a.size() == 0 && a.capacity() == 0 && a.allocated() == 0 && a.remaining() == 0, "C10: claimed arena reports non-zero any_stats");
            assert_stats_coherent(g.stats(), header_size);
        }
    }
    kani::cover!(true, "END: harness ran to completion");
}

macro_rules! stats_harness {
    ($name:ident, $A:ty, $S:ty, $hdr:expr, $budget:expr, $part:literal) => {
        #[kani::proof]
        #[kani::unwind(6)]
        #[kani::stub(std::alloc::handle_alloc_error, crate::stubs::hae_stub)]
        fn $name() {
            stats_body::<$A, $S, $part>($hdr, $budget);
        }
    };
}
// bookkeeping identities
stats_harness!(stats_coherent_va_up1_b1, VA, S<1, true>, 32, 1, 0);
stats_harness!(stats_coherent_va_down1_b1, VA, S<1, false>, 32, 1, 0);
stats_harness!(stats_coherent_va_up8_b0, VA, S<8, true>, 32, 0, 0);
stats_harness!(stats_coherent_va_down16_b0, VA, S<16, false>, 32, 0, 0);
stats_harness!(stats_coherent_extra8_up1_b1, VA<8>, S<1, true>, 32, 1, 0);
stats_harness!(stats_coherent_stateful_up1_b1, VAStateful, S<1, true>, 48, 1, 0);
macro_rules! stats_small_harness {
    ($name:ident, $A:ty, $S:ty, $hdr:expr) => {
        #[kani::proof]
        #[kani::unwind(6)]
        #[kani::stub(std::alloc::handle_alloc_error, crate::stubs::hae_stub)]
        fn $name() {
            unsafe { SMALL_REQ = true };
            unsafe { WIDE = true };
            stats_body::<$A, $S, 0>($hdr, 1);
        }
    };
}
stats_small_harness!(stats_coherent_stateful_small_up1_b1, VAStateful, S<1, true>, 48);
stats_small_harness!(stats_coherent_stateful_small_down1_b1, VAStateful, S<1, false>, 48);
stats_harness!(stats_coherent_stateful_down1_b1, VAStateful, S<1, false>, 48, 1, 0);
stats_harness!(stats_coherent_over_up1_b0, VAOver, S<1, true>, 64, 0, 0);
stats_harness!(stats_coherent_over_down1_b0, VAOver, S<1, false>, 64, 0, 0);
// type-erased statistics equal the typed ones
stats_harness!(stats_any_va_up1_b0, VA, S<1, true>, 32, 0, 1);
stats_harness!(stats_any_va_down1_b1, VA, S<1, false>, 32, 1, 1);
stats_harness!(stats_any_stateful_up1_b1, VAStateful, S<1, true>, 48, 1, 1);
stats_harness!(stats_any_stateful_down1_b1, VAStateful, S<1, false>, 48, 1, 1);
stats_harness!(stats_any_over_up1_b0, VAOver, S<1, true>, 64, 0, 1);
stats_harness!(stats_any_over_down1_b0, VAOver, S<1, false>, 64, 0, 1);
// follow-up operations, claim
stats_harness!(stats_followup_va_up1_b0, VA, S<1, true>, 32, 0, 2);
stats_harness!(stats_followup_va_down4_b0, VA, S<4, false>, 32, 0, 2);
stats_harness!(stats_followup_va_up1_b1, VA, S<1, true>, 32, 1, 2);
stats_harness!(stats_any_followup_va_up1_b1, VA, S<1, true>, 32, 1, 4);
stats_harness!(stats_any_followup_stateful_down1_b1, VAStateful, S<1, false>, 48, 1, 4);
stats_harness!(stats_any_followup_va_down4_b0, VA, S<4, false>, 32, 0, 4);
stats_harness!(stats_claimed_va_up1_b0, VA, S<1, true>, 32, 0, 3);
stats_harness!(stats_claimed_stateful_down1_b1, VAStateful, S<1, false>, 48, 1, 3);

/// unallocated arena: all zeros, typed and type-erased
#[kani::proof]
#[kani::unwind(6)]
#[kani::stub(std::alloc::handle_alloc_error, crate::stubs::hae_stub)]
fn stats_unallocated_zero() {
    let bump: Bump<VA, S<1, true, false>> = Bump::unallocated();
    let s = bump.stats();
    check!(s.count() == 0 && s.size() == 0 && s.capacity() == 0 && s.allocated() == 0 && s.remaining() == 0, "C10: unallocated arena reports non-zero statistics");
    check!(s.current_chunk().is_none() && s.small_to_big().next().is_none() && s.big_to_small().next().is_none(), "C10: unallocated arena reports chunks");
    let a = bump.any_stats();
    check!(a.count() == 0 && a.size() == 0 && a.capacity() == 0 && a.allocated() == 0 && a.remaining() == 0, "C10: unallocated arena reports non-zero any_stats");
    kani::cover!(true, "END: harness ran to completion");
}

// ------------------------------------------------------------------------------------------------
// growth rule from a FIRST CHUNK WITH CAPACITY and a large header (stateful: 48-byte header / over-aligned: 64-byte
// header): try_with_size(112) gives a 112-byte chunk (capacity 64 / 48); it is filled, and a small request creates
// the next chunk. Because sizes are rounded to a power of two less 16, "twice the capacity" and "twice the size" only
// differ when the header is larger than half of the rest - which the zero-sized stub never reaches (third-round
// seeded change C10-r3). Oracles: C10 "each later chunk strictly larger", C12 ">= 2 * previous - 16".
// ------------------------------------------------------------------------------------------------
fn growth_body<A, St: BumpAllocatorSettings>(header_size: usize, fill: usize)
where
    A: BaseAllocator<St::GuaranteedAllocated> + Default,
{
    unsafe { WIDE = true };
    set_budget(1);
    let Ok(bump) = Bump::<A, St>::try_with_size(112) else { return };
    let mut bump = core::mem::ManuallyDrop::new(bump);
    set_budget(0);
    check!(bump.stats().count() == 1, "harness: first chunk missing");
    kani::cover!(bump.stats().size() == 112, "first chunk of 112 bytes");
    let Ok(_) = bump.allocate(core::alloc::Layout::from_size_align(fill, 1).unwrap()) else { return };
    let l = core::alloc::Layout::from_size_align(8, 1).unwrap();
    set_budget(1);
    let r = bump.allocate(l);
    set_budget(0);
    kani::cover!(r.is_ok() && bump.stats().count() == 2, "a small request created the next chunk");
    // light oracle (the full identities on a 112-byte + 240-byte pair of chunk objects do not finish): sizes only
    if r.is_ok() {
        let cur = bump.stats().current_chunk().unwrap();
        if let Some(prev) = cur.prev() {
            check!(cur.size() % 16 == 0, "C10: chunk size is not a multiple of 16");
            check!(cur.size() > prev.size(), "C10: later chunk not strictly larger than its predecessor");
            check!(cur.size() + 16 >= 2 * prev.size(), "C12: a later chunk is smaller than twice its predecessor less 16 bytes");
            check!(cur.capacity() + header_size == cur.size(), "C10: chunk capacity differs from size less header");
        }
    }
    kani::cover!(true, "END: harness ran to completion");
}

macro_rules! growth_harness {
    ($name:ident, $A:ty, $S:ty, $hdr:expr, $fill:expr) => {
        #[kani::proof]
        #[kani::unwind(6)]
        #[kani::stub(std::alloc::handle_alloc_error, crate::stubs::hae_stub)]
        fn $name() {
            growth_body::<$A, $S>($hdr, $fill);
        }
    };
}
growth_harness!(stats_growth_stateful_up1, VAStateful, S<1, true>, 48, 60);
growth_harness!(stats_growth_stateful_down1, VAStateful, S<1, false>, 48, 60);
growth_harness!(stats_growth_over_up1, VAOver, S<1, true>, 64, 44);
