use crate::common::*;
use bump_scope::alloc::{AllocError, Allocator};
use bump_scope::settings::BumpAllocatorSettings;
use bump_scope::{BaseAllocator, Bump};
use core::ptr::NonNull;

fn base(ops: u8, coherent: bool, content: bool) {
    type St = S<1, true>;
    set_budget(1);
    let Ok(bump) = Bump::<VA, St>::try_new() else { return };
    set_budget(0);
    let cstart = bump.stats().current_chunk().unwrap().content_start().as_ptr();
    let cs0 = cstart as usize;
    let la = any_layout(6, 2);
    let lb = any_layout(8, 3);
    let Ok(a) = bump.allocate(la) else { return };
    let a = a.cast::<u8>();
    let Ok(b) = bump.allocate(lb) else { return };
    let b = b.cast::<u8>();
    let ia: usize = kani::any();
    let ib: usize = kani::any();
    let va: u8 = kani::any();
    let vb: u8 = kani::any();
    if content {
        kani::assume(ia < la.size() && ib < lb.size());
        unsafe {
            poke(cstart, addr(a) - cs0 + ia, va);
            poke(cstart, addr(b) - cs0 + ib, vb);
        }
    }
    let op: u8 = kani::any();
    kani::assume(op < ops);
    let ln = any_layout(16, 4);
    let r = unsafe {
        match op {
            0 => bump.allocate(ln),
            1 => {
                kani::assume(ln.size() >= lb.size());
                bump.grow(b, lb, ln)
            }
            2 => {
                kani::assume(ln.size() <= lb.size());
                bump.shrink(b, lb, ln)
            }
            _ => {
                bump.deallocate(b, lb);
                bump.allocate(ln)
            }
        }
    };
    if coherent {
        assert_stats_coherent(bump.stats(), 32);
    }
    if let Ok(nb) = r {
        let n = nb.cast::<u8>();
        assert!(addr(n) % ln.align() == 0, "aligned");
        assert!(disjoint(addr(n), ln.size(), addr(a), la.size()), "disjoint A");
        if content {
            assert!(unsafe { peek(cstart, addr(a) - cs0 + ia) } == va, "A intact");
            if op == 1 || (op == 2 && ib < ln.size()) {
                assert!(unsafe { peek(cstart, addr(n) - cs0 + ib) } == vb, "B prefix preserved");
            }
        }
    }
    core::mem::forget(bump);
    kani::cover!(true, "END");
}

macro_rules! p {
    ($name:ident, $ops:expr, $coh:expr, $cont:expr) => {
        #[kani::proof]
        #[kani::unwind(6)]
        #[kani::stub(std::alloc::handle_alloc_error, crate::stubs::hae_stub)]
        fn $name() {
            base($ops, $coh, $cont);
        }
    };
}
p!(p_alloc_only, 1, false, false);
p!(p_alloc_grow, 2, false, false);
p!(p_all4, 4, false, false);
p!(p_all4_content, 4, false, true);
p!(p_all4_coherent, 4, true, false);
