//! The step skeleton (DESIGN.md 2.2): concrete prefix, symbolic fillers A and B (=> arbitrary legal bump position,
//! "other live blocks"), ONE operation with symbolic arguments through a stated entry point, then the oracles of
//! C01 (valid / aligned / disjoint), C02 (contents), C10 (bookkeeping), C13 (reclaiming, opt-outs).
use crate::check;
use crate::common::*;
use bump_scope::alloc::{AllocError, Allocator};
use bump_scope::settings::BumpAllocatorSettings;
use bump_scope::traits::BumpAllocatorCore;
use bump_scope::{BaseAllocator, Bump, BumpScope, WithoutDealloc, WithoutShrink};
use core::alloc::Layout;
use core::ptr::NonNull;

pub const SENTINEL: u8 = 0xEE;

#[derive(Clone, Copy, PartialEq, Eq)]
pub enum Entry {
    Bump,
    Scope,
    NoDealloc,
    NoShrink,
}

/// `budget_for_op`: 0 => the operation must cope without a new chunk (failure path), 1 => it may create chunk 2.
pub fn step<A, St, const COHERENT: bool, const OPS: u16, const NSIZE: usize, const NALIGN: usize>(entry: Entry, budget_for_op: usize, header_size: usize)
where
    A: BaseAllocator<St::GuaranteedAllocated> + Default,
    St: BumpAllocatorSettings,
{
    set_budget(1);
    let Ok(bump) = Bump::<A, St>::try_new() else { return };
    // never run Drop for Bump on early-return paths (it walks the chunk list and calls the base allocator: pure cost)
    let mut bump = core::mem::ManuallyDrop::new(bump);
    set_budget(0);
    let first_chunk = bump.stats().current_chunk().unwrap().chunk_start().as_ptr() as usize;

    // symbolic pre-state
    let la = any_layout(6, 2);
    let lb = any_layout(8, 3);
    let Ok(a) = bump.allocate(la) else { return };
    let a = a.cast::<u8>();
    let Ok(b) = bump.allocate(lb) else { return };
    let b = b.cast::<u8>();
    // contents: ONE byte at a symbolic offset of A, of B and of the free space is given a symbolic value; the solver
    // picks the offsets, so every byte of every block is covered (a clobbered / mis-copied byte can be chosen)
    let w1 = Win::of(bump.stats().current_chunk().unwrap());
    let va: u8 = kani::any();
    let vb: u8 = kani::any();
    let ia: usize = kani::any();
    let ib: usize = kani::any();
    let ifree: usize = kani::any();
    kani::assume(vb != SENTINEL && va != SENTINEL);
    kani::assume(ia < la.size() || la.size() == 0);
    kani::assume(ib < lb.size() || lb.size() == 0);
    let (free_lo, free_n) = {
        let c = bump.stats().current_chunk().unwrap();
        let (lo, hi) = if St::UP { (c.bump_position(), c.content_end()) } else { (c.content_start(), c.bump_position()) };
        (addr(lo), addr(hi) - addr(lo))
    };
    kani::assume(ifree < free_n || free_n == 0);
    unsafe {
        if la.size() > 0 {
            w1.write(addr(a) + ia, va);
        }
        if lb.size() > 0 {
            w1.write(addr(b) + ib, vb);
        }
        if free_n > 0 {
            w1.write(free_lo + ifree, SENTINEL);
        }
    }
    check!(addr(a) % la.align() == 0 && addr(b) % lb.align() == 0, "C01: filler misaligned");
    check!(disjoint(addr(a), la.size(), addr(b), lb.size()), "C01: fillers overlap");
    let allocated_before = bump.stats().allocated();
    let pos_before = addr(bump.stats().current_chunk().unwrap().bump_position());

    // the step
    // OPS: bit k set => operation k is in this harness's symbolic choice
    let op: u8 = kani::any();
    kani::assume(op < 10 && (OPS >> op) & 1 == 1);
    // NSIZE = 0: the new layout is symbolic, L(<=16, <=16). NSIZE > 0: a concrete layout that cannot fit in the 16-byte
    // chunk, so that the chunk switch is certain and the requested chunk size is a constant (DESIGN.md 2.5/2.8)
    let split_k: usize = kani::any();
    let ln = if NSIZE == 0 { any_layout(16, 4) } else { Layout::from_size_align(NSIZE, NALIGN).unwrap() };
    set_budget(budget_for_op);
    let calls_before = calls();
    let r: Result<NonNull<[u8]>, AllocError> = unsafe {
        macro_rules! via {
            ($alloc:expr) => {{
                let al = $alloc;
                if OPS & 1 != 0 && op == 0 {
                    al.allocate(ln)
                } else if OPS & 2 != 0 && op == 1 {
                    al.allocate_zeroed(ln)
                } else if OPS & 4 != 0 && op == 2 {
                    kani::assume(ln.size() >= lb.size());
                    al.grow(b, lb, ln)
                } else if OPS & 8 != 0 && op == 3 {
                    kani::assume(ln.size() >= lb.size());
                    al.grow_zeroed(b, lb, ln)
                } else if OPS & 16 != 0 && op == 4 {
                    kani::assume(ln.size() <= lb.size());
                    al.shrink(b, lb, ln)
                } else if OPS & 32 != 0 && op == 5 {
                    al.deallocate(b, lb);
                    al.allocate(ln)
                } else if OPS & 64 != 0 && op == 6 {
                    // split B into two live sub-blocks and give back the one on the bump side; the other one stays live
                    kani::assume(split_k > 0 && split_k < lb.size());
                    if St::UP {
                        al.deallocate(NonNull::new_unchecked(b.as_ptr().add(split_k)), Layout::from_size_align_unchecked(lb.size() - split_k, 1));
                    } else {
                        al.deallocate(b, Layout::from_size_align_unchecked(split_k, 1));
                    }
                    al.allocate(ln)
                } else if OPS & 128 != 0 && op == 7 {
                    // operations on A, which is NOT the newest block (B lies between it and the bump position)
                    kani::assume(lb.size() > 0 && ln.size() <= la.size());
                    al.shrink(a, la, ln)
                } else if OPS & 256 != 0 && op == 8 {
                    kani::assume(lb.size() > 0 && ln.size() >= la.size());
                    al.grow(a, la, ln)
                } else if OPS & 512 != 0 && op == 9 {
                    kani::assume(lb.size() > 0);
                    al.deallocate(a, la);
                    al.allocate(ln)
                } else {
                    kani::assume(false);
                    Err(AllocError)
                }
            }};
        }
        match entry {
            Entry::Bump => via!(&*bump),
            Entry::Scope => via!(bump.as_scope()),
            Entry::NoDealloc => via!(WithoutDealloc(&*bump)),
            Entry::NoShrink => via!(WithoutShrink(&*bump)),
        }
    };
    set_budget(0);
    // the part of B that is still live after the operation: all of it (allocate*), the part that was kept (split), nothing
    let on_a = op >= 7;
    let (bl_addr, bl_len) = if op < 2 || on_a {
        (addr(b), lb.size())
    } else if op == 6 {
        if St::UP { (addr(b), split_k) } else { (addr(b) + split_k, lb.size() - split_k) }
    } else {
        (0, 0)
    };
    let b_live = bl_len > 0;
    let realloc = op >= 2 && op <= 4;

    // witnesses; "[tag]" covers are required only of harnesses registered with that tag
    kani::cover!(r.is_ok() && op == 0, "[op0] allocate ok");
    kani::cover!(r.is_err() && op == 0, "[op0-b0] allocate failed");
    kani::cover!(r.is_ok() && op == 2 && addr(r.unwrap().cast()) == addr(b) && ln.size() > lb.size(), "[op2-up-b0] grow in place");
    kani::cover!(r.is_ok() && op == 2 && addr(r.unwrap().cast()) != addr(b), "[op2] grow moved");
    kani::cover!(r.is_ok() && op == 4 && ln.size() < lb.size(), "[op4] shrink ok");
    kani::cover!(r.is_ok() && op == 4 && addr(r.unwrap().cast()) != addr(b), "[op4-unfit] shrink moved the block");
    kani::cover!(r.is_ok() && op == 5, "[op5] deallocate then allocate ok");
    kani::cover!(r.is_ok() && op == 6 && ln.size() > 0, "[op6] allocated after giving back one half of a split block");
    kani::cover!(r.is_ok() && op == 7 && addr(r.unwrap().cast()) != addr(a), "[op7-misaligned] shrink of a non-newest block to a stricter alignment moved it");
    kani::cover!(r.is_ok() && op == 8 && ln.size() > la.size(), "[op8] grow of a non-newest block");
    kani::cover!(r.is_ok() && op == 9 && ln.size() > 0, "[op9] allocate after deallocating a non-newest block");
    kani::cover!(r.is_ok() && bump.stats().count() == 2, "[b1] operation created a second chunk");

    // C02: A is never disturbed, whatever happened (unless A itself was handed to the operation)
    if la.size() > 0 && !on_a {
        check!(unsafe { w1.read(addr(a) + ia) } == va, "C02: bytes of a live block (A) changed");
    }
    // C10 after every operation (heavy oracle: only in the harnesses registered for C10)
    if COHERENT {
        assert_stats_coherent(bump.stats(), header_size);
    }

    match r {
        Err(_) => {
            // C07: state intact, B still there (for ops that do not give it up before failing)
            if op != 5 && op != 6 && op != 9 {
                if lb.size() > 0 {
                    check!(unsafe { w1.read(addr(b) + ib) } == vb, "C07/C02: bytes of B changed by a failed operation");
                }
                check!(bump.stats().allocated() == allocated_before, "C07: failed allocation changed the allocated byte count");
                check!(addr(bump.stats().current_chunk().unwrap().bump_position()) == pos_before, "C07: failed allocation moved the bump position");
            }
            check!(bump.stats().count() == 1, "C07: failed allocation linked a chunk");
            // C13: "growing [the newest] allocation in an upward arena with enough room returns the same address" - it
            // must in particular not fail (found missing by a third-round seeded change: the Ok arm alone cannot see a
            // grow that gives up although the chunk has room)
            if St::UP && (op == 2 || op == 3) && lb.size() % St::MIN_ALIGN == 0 {
                let ce = addr(bump.stats().current_chunk().unwrap().content_end());
                let fits = addr(b) % ln.align() == 0 && ln.size() <= ce - addr(b);
                kani::cover!(!fits, "[op2-up-b0] grow failed because there is no room");
                check!(!fits, "C13: growing the newest block failed although the chunk has room for it");
            }
            if budget_for_op == 0 {
                // C12/C07 sanity: it really did not fit
                kani::cover!(true, "[b0] failure path taken");
            }
        }
        Ok(nb) => {
            let n = nb.cast::<u8>();
            let nlen = nb.len();
            // ---- C01 ----
            check!(addr(n) % ln.align() == 0, "C01: block not aligned as requested");
            check!(nlen >= ln.size(), "C01: block smaller than requested");
            let cur = bump.stats().current_chunk().unwrap();
            let (cs, ce) = (addr(cur.content_start()), addr(cur.content_end()));
            if ln.size() > 0 {
                // in place shrink/grow of a block keeps it in its chunk; fresh blocks are in the current chunk
                let in_current = addr(n) >= cs && addr(n) + ln.size() <= ce;
                let mut it = bump.stats().small_to_big();
                let first = it.next().unwrap();
                let in_first = addr(n) >= addr(first.content_start()) && addr(n) + ln.size() <= addr(first.content_end());
                check!(in_current || in_first, "C01: block outside the memory the arena owns");
            }
            if !on_a {
                check!(disjoint(addr(n), ln.size(), addr(a), la.size()), "C01: block overlaps a live block (A)");
            }
            if op == 9 {
                // deallocating a block that is not the newest reclaims nothing: its bytes are not handed out again
                check!(disjoint(addr(n), ln.size(), addr(a), la.size()), "C13: deallocating a block that is not the newest made its space reusable");
            }
            if op == 7 || op == 8 {
                let keep = if ln.size() < la.size() { ln.size() } else { la.size() };
                let w = if w1.holds(addr(n)) { w1 } else { Win::of(cur) };
                if la.size() > 0 && ia < keep {
                    check!(unsafe { w.read(addr(n) + ia) } == va, "C02: surviving prefix of a reallocated (non-newest) block differs from the old contents");
                }
            }
            if b_live {
                check!(disjoint(addr(n), ln.size(), bl_addr, bl_len), "C01: block overlaps a live block (B, or the part of B that was kept)");
                if addr(b) + ib >= bl_addr && addr(b) + ib < bl_addr + bl_len {
                    check!(unsafe { w1.read(addr(b) + ib) } == vb, "C02: bytes of a live block (B) changed");
                }
            }
            // ---- C02 ----
            let wn = Win::of(cur);
            let win = if w1.holds(addr(n)) { w1 } else { wn };
            if ln.size() > 0 {
                check!(win.holds(addr(n)) && win.holds(addr(n) + ln.size() - 1), "harness: new block outside the observation window");
            }
            if realloc {
                let keep = if ln.size() < lb.size() { ln.size() } else { lb.size() };
                if ib < keep {
                    check!(unsafe { win.read(addr(n) + ib) } == vb, "C02: surviving prefix of a reallocated block differs from the old contents");
                }
            }
            if op == 1 || op == 3 {
                let from = if op == 3 { lb.size() } else { 0 };
                let i: usize = kani::any();
                if i >= from && i < ln.size() {
                    check!(unsafe { win.read(addr(n) + i) } == 0, "C02: zeroed memory is not zero");
                }
            }
            // "never writes outside the new block": a byte of the former free space that is not part of the new block
            // (and, for in-place moves, not part of the old block either) still holds the sentinel
            if free_n > 0 {
                let f = free_lo + ifree;
                let in_new = f >= addr(n) && f < addr(n) + ln.size();
                if !in_new {
                    check!(unsafe { w1.read(f) } == SENTINEL, "C02: wrote outside the new block (free space of the chunk was modified)");
                }
            }
            // ---- C13 ----
            let allocated_after = bump.stats().allocated();
            let b_is_newest_reclaimable = lb.size() % St::MIN_ALIGN == 0;
            match op {
                0 | 1 => check!(allocated_after >= allocated_before, "C13: allocate decreased the allocated byte count"),
                2 | 3 => {
                    check!(allocated_after >= allocated_before, "C13: grow decreased the allocated byte count");
                    if St::UP {
                        // growing the newest block upwards with unchanged alignment fit and enough room is in place
                        let room = ce - addr(b);
                        if addr(b) % ln.align() == 0 && ln.size() <= room && bump.stats().count() == 1 && b_is_newest_reclaimable {
                            check!(addr(n) == addr(b), "C13: growing the newest block with room left moved it");
                        }
                    }
                }
                4 => {
                    if !St::SHRINKS || entry == Entry::NoShrink {
                        check!(allocated_after >= allocated_before, "C13: shrink decreased the allocated byte count although shrinking is off");
                    }
                }
                6 => {}
                7 | 8 | 9 => check!(allocated_after >= allocated_before, "C13: an operation on a block that is not the newest decreased the allocated byte count"),
                _ => {
                    if !St::DEALLOCATES || entry == Entry::NoDealloc {
                        check!(allocated_after >= allocated_before, "C13: deallocate changed the allocated byte count although deallocation is off");
                    } else if b_is_newest_reclaimable && ln.size() == lb.size() && ln.align() == lb.align() {
                        check!(addr(n) == addr(b), "C13: re-requesting the layout of the just deallocated newest block gave a different address");
                    }
                }
            }
        }
    }
    // no base-allocator call when nothing was granted
    if budget_for_op == 0 {
        check!(grants() == 1, "C05: a chunk appeared without a grant");
    }
    kani::cover!(true, "END: harness ran to completion");
}

macro_rules! step_harness {
    ($name:ident, $A:ty, $S:ty, $entry:expr, $budget:expr, $hdr:expr, $ops:expr) => {
        step_harness!($name, $A, $S, $entry, $budget, $hdr, $ops, false);
    };
    ($name:ident, $A:ty, $S:ty, $entry:expr, $budget:expr, $hdr:expr, $ops:expr, $coh:expr) => {
        #[kani::proof]
        #[kani::unwind(6)]
        #[kani::stub(std::alloc::handle_alloc_error, crate::stubs::hae_stub)]
        fn $name() {
            step::<$A, $S, $coh, $ops, 0, 1>($entry, $budget, $hdr);
        }
    };
}

macro_rules! step_switch_harness {
    ($name:ident, $A:ty, $S:ty, $entry:expr, $hdr:expr, $ops:expr, $nsize:literal, $nalign:literal) => {
        #[kani::proof]
        #[kani::unwind(6)]
        #[kani::stub(std::alloc::handle_alloc_error, crate::stubs::hae_stub)]
        fn $name() {
            step::<$A, $S, false, $ops, $nsize, $nalign>($entry, 1, $hdr);
        }
    };
}

const ALL: u16 = 0b1111111;
/// the three operations on the block that is not the newest
const ON_A: u16 = 0b1110000000;
// budget 0: the operation has to cope inside the first chunk or fail (all six operations in one query)
step_harness!(step_up1_bump_b0, VA, S<1, true>, Entry::Bump, 0, 32, ALL);
step_harness!(step_down1_bump_b0, VA, S<1, false>, Entry::Bump, 0, 32, ALL);
step_harness!(step_up8_bump_b0, VA, S<8, true>, Entry::Bump, 0, 32, ALL);
step_harness!(step_down16_bump_b0, VA, S<16, false>, Entry::Bump, 0, 32, ALL);
step_harness!(step_up4_scope_b0, VA, S<4, true>, Entry::Scope, 0, 32, ALL);
step_harness!(step_up1_nodealloc_b0, VA, S<1, true>, Entry::NoDealloc, 0, 32, ALL);
step_harness!(step_down1_nodealloc_b0, VA, S<1, false>, Entry::NoDealloc, 0, 32, ALL);
step_harness!(step_up1_noshrink_b0, VA, S<1, true>, Entry::NoShrink, 0, 32, ALL);
step_harness!(step_down1_noshrink_b0, VA, S<1, false>, Entry::NoShrink, 0, 32, ALL);
// settings opt-outs
step_harness!(step_up1_set_nodealloc_b0, VA, S<1, true, true, false, true>, Entry::Bump, 0, 32, ALL);
step_harness!(step_down1_set_noshrink_b0, VA, S<1, false, true, true, false>, Entry::Bump, 0, 32, ALL);
step_harness!(step_up1_set_noshrink_b0, VA, S<1, true, true, true, false>, Entry::Bump, 0, 32, ALL);
step_harness!(step_down4_bump_b0, VA, S<4, false>, Entry::Bump, 0, 32, ALL);
// grow / grow_zeroed of the newest block only, upward with MIN_ALIGN > 1 (the in-place clause of C13 at every position;
// cheap enough for the quick tier)
step_harness!(step_up8_grow_b0, VA, S<8, true>, Entry::Bump, 0, 32, 0b0001100);
step_harness!(step_up4_grow_nodealloc_b0, VA, S<4, true>, Entry::NoDealloc, 0, 32, 0b0001100);
step_harness!(step_up1_other_b0, VA, S<1, true>, Entry::Bump, 0, 32, ON_A);
step_harness!(step_down1_other_b0, VA, S<1, false>, Entry::Bump, 0, 32, ON_A);
step_harness!(step_down4_other_nodealloc_b0, VA, S<4, false>, Entry::NoDealloc, 0, 32, ON_A);
step_harness!(step_up1_other_set_noshrink_b0, VA, S<1, true, true, true, false>, Entry::Bump, 0, 32, ON_A);
// budget 1 and a request that cannot fit: the operation creates chunk 2 (symbolic pre-state, concrete request;
// one operation kind per query: each slow path adds a heap object and multiplies the pointer case splits)
step_switch_harness!(step_up1_switch_alloc, VA, S<1, true>, Entry::Bump, 32, 0b0000001, 24, 8);
step_switch_harness!(step_up1_switch_zeroed, VA, S<1, true>, Entry::Bump, 32, 0b0000010, 24, 8);
step_switch_harness!(step_up1_switch_dealloc_alloc, VA, S<1, true>, Entry::Bump, 32, 0b0100000, 24, 8);
step_switch_harness!(step_up1_switch_split, VA, S<1, true>, Entry::Bump, 32, 0b1000000, 24, 8);
step_switch_harness!(step_up1_switch_grow, VA, S<1, true>, Entry::Bump, 32, 0b0000100, 20, 4);
step_switch_harness!(step_up1_switch_grow_zeroed, VA, S<1, true>, Entry::Bump, 32, 0b0001000, 20, 4);
step_switch_harness!(step_up1_switch_shrink_unfit, VA, S<1, true>, Entry::Bump, 32, 0b0010000, 8, 16);
step_switch_harness!(step_down1_switch_alloc, VA, S<1, false>, Entry::Bump, 32, 0b0000001, 24, 8);
step_switch_harness!(step_down1_switch_zeroed, VA, S<1, false>, Entry::Bump, 32, 0b0000010, 24, 8);
step_switch_harness!(step_down1_switch_dealloc_alloc, VA, S<1, false>, Entry::Bump, 32, 0b0100000, 24, 8);
step_switch_harness!(step_down1_switch_grow, VA, S<1, false>, Entry::Bump, 32, 0b0000100, 20, 4);
step_switch_harness!(step_down8_switch_alloc, VA, S<8, false>, Entry::Bump, 32, 0b0000001, 18, 1);
step_switch_harness!(step_up4_switch_grow_noshrink, VA, S<4, true>, Entry::NoShrink, 32, 0b0000100, 24, 2);
