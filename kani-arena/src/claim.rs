//! C14 — a claimed allocator is inert until the claim ends, then resumes.
use crate::check;
use crate::common::*;
use bump_scope::alloc::Allocator;
use bump_scope::settings::BumpAllocatorSettings;
use bump_scope::{BaseAllocator, Bump};
use core::alloc::Layout;

fn claim_body<St: BumpAllocatorSettings>(guard_budget: usize)
where
    VA: BaseAllocator<St::GuaranteedAllocated>,
{
    set_budget(1);
    let Ok(mut bump) = Bump::<VA, St>::try_new() else { return };
    // never run Drop for Bump on early-return paths (it walks the chunk list and calls the base allocator: pure cost)
    let mut bump = core::mem::ManuallyDrop::new(bump);
    set_budget(0);
    let c1 = bump.stats().current_chunk().unwrap();
    let w1 = Win::of(c1);
    // a pre-claim block with one symbolic byte
    let lp = any_layout(4, 2);
    let Ok(p) = bump.allocate(lp) else { return };
    let p = p.cast::<u8>();
    let vp: u8 = kani::any();
    let ip: usize = kani::any();
    kani::assume(lp.size() > 0 && ip < lp.size());
    unsafe { w1.write(addr(p) + ip, vp) };
    let pos0 = addr(bump.stats().current_chunk().unwrap().bump_position());
    let allocated0 = bump.stats().allocated();

    // with budget the guard's request is concrete and cannot fit in the 16-byte chunk (chunk switch certain, DESIGN.md 2.8)
    let lg = if guard_budget == 1 { Layout::from_size_align(24, 8).unwrap() } else { any_layout(16, 4) };
    kani::assume(lg.size() > 0);
    let (g_addr, g_val, g_off, pos_guard_end, chunk_guard_end);
    {
        let mut guard = bump.claim();
        check!(bump.is_claimed(), "C14: is_claimed is false while a claim guard is alive");
        // -- through the original handle: inert --
        let l = any_layout(16, 4);
        kani::assume(l.size() > 0);
        check!(bump.allocate(l).is_err(), "C14: allocation through a claimed handle succeeded");
        check!(bump.allocate_zeroed(l).is_err(), "C14: zeroed allocation through a claimed handle succeeded");
        let n: usize = kani::any();
        check!(bump.try_reserve(n).is_err(), "C14: reserve through a claimed handle succeeded");
        check!(bump.try_alloc_uninit::<u32>().is_err(), "C14: typed allocation through a claimed handle succeeded");
        check!(bump.try_alloc_uninit_slice::<u16>(n).is_err() || n == 0, "C14: slice allocation through a claimed handle succeeded");
        let lgrow = any_layout(8, 2);
        kani::assume(lgrow.size() >= lp.size());
        check!(unsafe { bump.grow(p, lp, lgrow) }.is_err(), "C14: grow through a claimed handle succeeded");
        // deallocate / shrink do nothing
        let lshr = any_layout(4, 2);
        kani::assume(lshr.size() <= lp.size());
        let before = addr(guard.stats().current_chunk().unwrap().bump_position());
        let shr = unsafe { bump.shrink(p, lp, lshr) };
        if let Ok(s) = shr {
            check!(addr(s.cast()) == addr(p), "C14: shrink through a claimed handle moved the block");
        }
        unsafe { bump.deallocate(p, lp) };
        check!(addr(guard.stats().current_chunk().unwrap().bump_position()) == before, "C14: deallocate/shrink through a claimed handle moved the guard's position");
        // stats report an empty arena
        let s = bump.stats();
        check!(s.count() == 0 && s.size() == 0 && s.capacity() == 0 && s.allocated() == 0 && s.remaining() == 0, "C14: a claimed handle reports non-zero statistics");
        check!(s.current_chunk().is_none(), "C14: a claimed handle reports a current chunk");
        // zero-sized values never touch the allocator
        check!(bump.try_alloc(()).is_ok(), "C14: zero-sized allocation through a claimed handle failed");
        check!(bump.allocate(Layout::new::<()>()).is_ok() || true, "zst layout through allocate: unspecified");

        // -- through the guard: works, may create a chunk, scopes are undone --
        check!(addr(guard.stats().current_chunk().unwrap().bump_position()) == pos0, "C14: the guard does not start where the handle stopped");
        set_budget(guard_budget);
        let Ok(g) = guard.allocate(lg) else {
            core::mem::forget(guard);
            return;
        };
        set_budget(0);
        let g = g.cast::<u8>();
        let wg = Win::of(guard.stats().current_chunk().unwrap());
        let win = if w1.holds(addr(g)) { w1 } else { wg };
        let iv: u8 = kani::any();
        let io: usize = kani::any();
        kani::assume(io < lg.size());
        unsafe { win.write(addr(g) + io, iv) };
        let pos_after_g = addr(guard.stats().current_chunk().unwrap().bump_position());
        let inner: usize = guard.scoped(|s| {
            let li = any_layout(4, 2);
            match s.allocate(li) {
                Ok(x) => addr(x.cast()),
                Err(_) => 0,
            }
        });
        check!(addr(guard.stats().current_chunk().unwrap().bump_position()) == pos_after_g, "C14/C03: a scope opened through the guard was not undone");
        kani::cover!(inner != 0, "[room] allocated inside a scope inside the claim");
        kani::cover!(guard.stats().count() == 2, "[b1] the guard created a second chunk");
        g_addr = addr(g);
        g_val = iv;
        g_off = io;
        pos_guard_end = pos_after_g;
        chunk_guard_end = addr(guard.stats().current_chunk().unwrap().chunk_start());
        // nested claim through the guard
        {
            let inner_guard = guard.claim();
            check!(guard.is_claimed(), "C14: nested claim not visible");
            check!(guard.allocate(lg).is_err(), "C14: allocation through a claimed guard succeeded");
            drop(inner_guard);
        }
        check!(!guard.is_claimed(), "C14: nested claim did not end");
    }
    // -- after the guard is dropped: resumes exactly where the guard stopped --
    check!(!bump.is_claimed(), "C14: handle still claimed after the guard was dropped");
    let cur = bump.stats().current_chunk().unwrap();
    check!(addr(cur.chunk_start()) == chunk_guard_end && addr(cur.bump_position()) == pos_guard_end, "C14: the handle does not continue where the guard stopped");
    check!(bump.stats().allocated() >= allocated0, "C14: allocated byte count went backwards across a claim");
    let l2 = any_layout(8, 3);
    kani::assume(l2.size() > 0);
    if let Ok(q) = bump.allocate(l2) {
        let q = addr(q.cast());
        check!(disjoint(q, l2.size(), g_addr, lg.size()), "C14/C01: allocation after the claim overlaps a block allocated through the guard");
        check!(disjoint(q, l2.size(), addr(p), lp.size()), "C14/C01: allocation after the claim overlaps a pre-claim block");
        kani::cover!(true, "allocated after the claim");
    }
    let wg = Win::of(cur);
    let win = if w1.holds(g_addr) { w1 } else { wg };
    check!(unsafe { win.read(g_addr + g_off) } == g_val, "C14/C02: block allocated through the guard changed");
    check!(unsafe { w1.read(addr(p) + ip) } == vp, "C14/C02: pre-claim block changed");
    kani::cover!(true, "END: harness ran to completion");
}

macro_rules! claim_harness {
    ($name:ident, $S:ty, $budget:expr) => {
        #[kani::proof]
        #[kani::unwind(6)]
        #[kani::stub(std::alloc::handle_alloc_error, crate::stubs::hae_stub)]
        fn $name() {
            claim_body::<$S>($budget);
        }
    };
}
claim_harness!(claim_up1_b0, S<1, true>, 0);
claim_harness!(claim_up1_b1, S<1, true>, 1);
claim_harness!(claim_down1_b0, S<1, false>, 0);
claim_harness!(claim_down8_b1, S<8, false>, 1);
claim_harness!(claim_up16_b0, S<16, true>, 0);

/// claims on an unallocated arena: the guard creates the first chunk, the handle continues in it
#[kani::proof]
#[kani::unwind(6)]
#[kani::stub(std::alloc::handle_alloc_error, crate::stubs::hae_stub)]
fn claim_unallocated() {
    type St = S<1, true, false>;
    let up: bool = kani::any();
    let bump = core::mem::ManuallyDrop::new(Bump::<VA, St>::unallocated());
    set_budget(0);
    let lg = any_layout(8, 3);
    kani::assume(lg.size() > 0);
    let g_addr;
    {
        let guard = bump.claim();
        check!(bump.is_claimed(), "C14: is_claimed false on a claimed unallocated arena");
        check!(bump.allocate(lg).is_err(), "C14: allocation through a claimed unallocated handle succeeded");
        let n: usize = kani::any();
        check!(bump.try_reserve(n).is_err(), "C14: reserve through a claimed handle (GUARANTEED_ALLOCATED = false) succeeded");
        check!(bump.is_claimed(), "C14: a request through the claimed handle ended the claim");
        check!(bump.stats().count() == 0, "C14: claimed unallocated handle reports chunks");
        check!(calls() == 0, "C14: a request through a claimed handle reached the base allocator");
        set_budget(1);
        let Ok(g) = guard.allocate(lg) else {
            core::mem::forget(guard);
            return;
        };
        set_budget(0);
        g_addr = addr(g.cast());
        check!(guard.stats().count() == 1, "C14: guard on an unallocated arena did not create exactly one chunk");
    }
    check!(!bump.is_claimed(), "C14: still claimed");
    check!(bump.stats().count() == 1, "C14: the chunk created through the guard is not visible through the handle");
    let l2 = any_layout(4, 2);
    kani::assume(l2.size() > 0);
    if let Ok(q) = bump.allocate(l2) {
        check!(disjoint(addr(q.cast()), l2.size(), g_addr, lg.size()), "C14/C01: allocation after the claim overlaps the guard's block");
        kani::cover!(true, "allocated after the claim");
    }
    kani::cover!(true, "END: harness ran to completion");
}

/// a second claim on a claimed handle panics on every path
#[kani::proof]
#[kani::unwind(6)]
#[kani::stub(std::alloc::handle_alloc_error, crate::stubs::hae_stub)]
fn panic_claim_twice() {
    set_budget(1);
    let Ok(bump) = Bump::<VA, S<1, true>>::try_new() else { return };
    // never run Drop for Bump on early-return paths (it walks the chunk list and calls the base allocator: pure cost)
    let mut bump = core::mem::ManuallyDrop::new(bump);
    set_budget(0);
    let g1 = bump.claim();
    kani::cover!(true, "REACH: first claim taken");
    let g2 = bump.claim();
    kani::cover!(true, "UNSAT: a second claim on a claimed allocator returned normally");
    core::mem::forget(g2);
    core::mem::forget(g1);
}

/// a panicking allocation method on a claimed handle never returns normally
#[kani::proof]
#[kani::unwind(6)]
#[kani::stub(std::alloc::handle_alloc_error, crate::stubs::hae_stub)]
fn panic_alloc_on_claimed() {
    set_budget(1);
    let Ok(bump) = Bump::<VA, S<1, true>>::try_new() else { return };
    // never run Drop for Bump on early-return paths (it walks the chunk list and calls the base allocator: pure cost)
    let mut bump = core::mem::ManuallyDrop::new(bump);
    set_budget(0);
    let g1 = bump.claim();
    kani::cover!(true, "REACH: claim taken");
    let which: bool = kani::any();
    if which {
        let b = bump.alloc(7u32);
        core::mem::forget(b);
    } else {
        bump.reserve(1);
    }
    kani::cover!(true, "UNSAT: a panicking allocation method returned normally on a claimed allocator");
    core::mem::forget(g1);
}

/// the same through the trait-object interface: a panicking typed method of `dyn BumpAllocatorCore` on a claimed
/// handle ends in the "claimed" panic (an unwinding panic), NOT in the allocation-error handler (which aborts by
/// default) - C14 "an unwinding panic from panicking ones", C07 "a claimed arena is reported by an unwinding panic",
/// C17 typed vs. trait-object. The only expected failed check is the one inside error_behavior::panic::claimed.
#[kani::proof]
#[kani::unwind(6)]
#[kani::stub(std::alloc::handle_alloc_error, crate::stubs::hae_stub)]
fn panic_dyn_alloc_on_claimed() {
    use bump_scope::traits::{BumpAllocatorCore, BumpAllocatorTyped};
    set_budget(1);
    let Ok(bump) = Bump::<VA, S<1, true>>::try_new() else { return };
    let mut bump = core::mem::ManuallyDrop::new(bump);
    set_budget(0);
    let g1 = bump.claim();
    kani::cover!(true, "REACH: claim taken");
    let d: &dyn BumpAllocatorCore = &*bump;
    let which: u8 = kani::any();
    kani::assume(which < 4);
    match which {
        0 => {
            let _ = d.allocate_layout(core::alloc::Layout::new::<u32>());
        }
        1 => {
            let _ = d.allocate_sized::<u32>();
        }
        2 => {
            let _ = d.allocate_slice::<u16>(3);
        }
        _ => d.reserve(1),
    }
    kani::cover!(true, "UNSAT: a panicking allocation method of dyn BumpAllocatorCore returned normally on a claimed allocator");
    core::mem::forget(g1);
}

/// ... and its try_ twins return Err without reaching any panic
#[kani::proof]
#[kani::unwind(6)]
#[kani::stub(std::alloc::handle_alloc_error, crate::stubs::hae_stub)]
fn nopanic_dyn_try_alloc_on_claimed() {
    use bump_scope::traits::{BumpAllocatorCore, BumpAllocatorTyped};
    set_budget(1);
    let Ok(bump) = Bump::<VA, S<1, true>>::try_new() else { return };
    let mut bump = core::mem::ManuallyDrop::new(bump);
    set_budget(0);
    let g1 = bump.claim();
    let d: &dyn BumpAllocatorCore = &*bump;
    check!(d.try_allocate_layout(core::alloc::Layout::new::<u32>()).is_err(), "C14: try_allocate_layout through dyn succeeded on a claimed allocator");
    check!(d.try_allocate_sized::<u32>().is_err(), "C14: try_allocate_sized through dyn succeeded on a claimed allocator");
    check!(d.try_allocate_slice::<u16>(3).is_err(), "C14: try_allocate_slice through dyn succeeded on a claimed allocator");
    check!(d.try_reserve(1).is_err(), "C14: try_reserve through dyn succeeded on a claimed allocator");
    check!(d.is_claimed(), "C14: is_claimed through dyn is false while the guard is alive");
    core::mem::forget(g1);
    kani::cover!(true, "END: harness ran to completion");
}
