//! C17 — all allocation entry points are interchangeable: two arenas in identical states, the same request
//! through two different entry points, same offset / allocated byte count / length.
use crate::check;
use crate::common::*;
use bump_scope::alloc::Allocator;
use bump_scope::settings::BumpAllocatorSettings;
use bump_scope::traits::{BumpAllocatorCore, BumpAllocatorCoreScope, BumpAllocatorTyped, MutBumpAllocatorCore};
use bump_scope::{BaseAllocator, Bump};
use core::alloc::Layout;

struct Obs {
    ok: bool,
    off: usize,
    allocated: usize,
}

fn observe<St: BumpAllocatorSettings>(bump: &Bump<VA, St>, r: Option<usize>) -> Obs
where
    VA: BaseAllocator<St::GuaranteedAllocated>,
{
    let c = bump.stats().current_chunk().unwrap();
    Obs {
        ok: r.is_some(),
        off: r.map(|a| a.wrapping_sub(addr(c.chunk_start()))).unwrap_or(0),
        allocated: bump.stats().allocated(),
    }
}

fn assert_same(a: &Obs, b: &Obs) {
    check!(a.ok == b.ok, "C17: one entry point succeeded where the other failed");
    check!(a.off == b.off, "C17: entry points returned blocks at different offsets");
    check!(a.allocated == b.allocated, "C17: entry points left different allocated byte counts");
}

fn two<St: BumpAllocatorSettings>() -> Option<(Bump<VA, St>, Bump<VA, St>)>
where
    VA: BaseAllocator<St::GuaranteedAllocated>,
{
    set_budget(2);
    let Ok(x) = Bump::<VA, St>::try_new() else { return None };
    let Ok(y) = Bump::<VA, St>::try_new() else {
        core::mem::forget(x);
        return None;
    };
    set_budget(0);
    // the same symbolic filler on both => identical, arbitrary pre-states
    let lf = any_layout(9, 3);
    let fx = x.allocate(lf).is_ok();
    let fy = y.allocate(lf).is_ok();
    check!(fx == fy, "C17: identical arenas disagree on the filler");
    Some((x, y))
}

/// typed sized fast path vs. generic layout path
fn sized_vs_layout<St: BumpAllocatorSettings, T>()
where
    VA: BaseAllocator<St::GuaranteedAllocated>,
{
    let Some((x, y)) = two::<St>() else { return };
    let (x, mut y) = (core::mem::ManuallyDrop::new(x), core::mem::ManuallyDrop::new(y));
    let rx = x.try_alloc_uninit::<T>().ok().map(|b| addr(b.into_raw().cast()));
    let ry = y.allocate(Layout::new::<T>()).ok().map(|p| addr(p.cast()));
    kani::cover!(rx.is_some(), "[fit] fits");
    kani::cover!(rx.is_none(), "[nofit] does not fit");
    assert_same(&observe(&x, rx), &observe(&y, ry));
    // BumpAllocatorTyped::try_allocate_sized / try_allocate_layout
    let rx2 = x.try_allocate_sized::<T>().ok().map(|p| addr(p.cast()));
    let ry2 = y.try_allocate_layout(Layout::new::<T>()).ok().map(|p| addr(p));
    assert_same(&observe(&x, rx2), &observe(&y, ry2));
    kani::cover!(true, "END: harness ran to completion");
}

/// typed slice fast path vs. generic layout path, any length
fn slice_vs_layout<St: BumpAllocatorSettings, T>()
where
    VA: BaseAllocator<St::GuaranteedAllocated>,
{
    let Some((x, y)) = two::<St>() else { return };
    let (x, mut y) = (core::mem::ManuallyDrop::new(x), core::mem::ManuallyDrop::new(y));
    let n: usize = kani::any();
    let rx = x.try_alloc_uninit_slice::<T>(n).ok().map(|b| (addr(b.as_non_null().cast()), b.len()));
    let ry = match Layout::array::<T>(n) {
        Ok(l) => y.allocate(l).ok().map(|p| addr(p.cast())),
        Err(_) => None,
    };
    kani::cover!(rx.is_some() && n == 3, "three elements fit");
    kani::cover!(rx.is_none() && n > (isize::MAX as usize), "size computation overflows");
    if let Some((_, len)) = rx {
        check!(len == n, "C17: slice has the wrong length");
    }
    // an empty / zero-sized slice never touches the allocator: compare only the observable effects
    if core::mem::size_of::<T>() * (if n < 64 { n } else { 64 }) > 0 {
        assert_same(&observe(&x, rx.map(|r| r.0)), &observe(&y, ry));
    } else {
        check!(x.stats().allocated() == y.stats().allocated(), "C17: empty slice changed the allocated byte count");
    }
    kani::cover!(true, "END: harness ran to completion");
}

/// Bump vs. BumpScope vs. &mut vs. trait objects vs. panicking twin, symbolic layout
fn handles<St: BumpAllocatorSettings>()
where
    VA: BaseAllocator<St::GuaranteedAllocated>,
{
    let Some((x, y)) = two::<St>() else { return };
    let (x, mut y) = (core::mem::ManuallyDrop::new(x), core::mem::ManuallyDrop::new(y));
    let l = any_layout(12, 4);
    let which: u8 = kani::any();
    kani::assume(which < 6);
    let rx = x.allocate(l).ok().map(|p| addr(p.cast()));
    let ry = match which {
        0 => y.as_scope().allocate(l).ok().map(|p| addr(p.cast())),
        1 => (&mut *y).allocate(l).ok().map(|p| addr(p.cast())),
        2 => {
            let d: &dyn BumpAllocatorCore = &*y;
            d.allocate(l).ok().map(|p| addr(p.cast()))
        }
        3 => {
            let d: &dyn BumpAllocatorCore = &*y;
            d.try_allocate_layout(l).ok().map(|p| addr(p))
        }
        4 => {
            let d: &mut dyn MutBumpAllocatorCore = &mut *y;
            d.try_allocate_layout(l).ok().map(|p| addr(p))
        }
        _ => y.scoped(|s| s.allocate(l).ok().map(|p| addr(p.cast()))),
    };
    kani::cover!(rx.is_some() && which == 3, "trait object path fits");
    kani::cover!(rx.is_none(), "does not fit");
    let ox = observe(&x, rx);
    let mut oy = observe(&y, ry);
    if which == 5 {
        // the scope was left again: only the offset is comparable
        oy.allocated = ox.allocated;
    }
    assert_same(&ox, &oy);
    kani::cover!(true, "END: harness ran to completion");
}

/// panicking method vs. its try_ twin when memory is available
fn panicking_twin<St: BumpAllocatorSettings>()
where
    VA: BaseAllocator<St::GuaranteedAllocated>,
{
    let Some((x, y)) = two::<St>() else { return };
    let (x, mut y) = (core::mem::ManuallyDrop::new(x), core::mem::ManuallyDrop::new(y));
    // "when memory is available": the twins are compared only in states where one more byte fits
    kani::assume(x.stats().remaining() >= 1);
    let v: u8 = kani::any();
    let bx = x.alloc(v);
    let by = y.try_alloc(v);
    let Ok(by) = by else {
        // try_ failed => the panicking twin must not have returned: unreachable here
        panic!("C17/C07: try_alloc failed where alloc returned normally");
    };
    check!(*bx == v && *by == v, "C17: twins stored different values");
    let (ax, ay) = (addr(bx.into_raw().cast()), addr(by.into_raw().cast()));
    assert_same(&observe(&x, Some(ax)), &observe(&y, Some(ay)));
    kani::cover!(true, "END: harness ran to completion");
}

/// panicking `alloc_with` vs. `try_alloc_with` when the closure itself allocates on the same arena (allowed: both take
/// `&self`): the slot of the outer value and the block of the inner one must end up at the same offsets through both
/// twins, with the same allocated byte count (third-round seeded change: the try_ twin evaluating the closure BEFORE it
/// reserves the slot swaps the two blocks)
fn twin_with_closure<St: BumpAllocatorSettings>()
where
    VA: BaseAllocator<St::GuaranteedAllocated>,
{
    let Some((x, y)) = two::<St>() else { return };
    let (x, y) = (core::mem::ManuallyDrop::new(x), core::mem::ManuallyDrop::new(y));
    // "when memory is available": room for the u16 slot (+ padding) and the inner byte
    kani::assume(x.stats().remaining() >= 5);
    let v: u16 = kani::any();
    let w: u8 = kani::any();
    let mut ix = 0usize;
    let mut iy = 0usize;
    let bx = x.alloc_with(|| {
        ix = addr(x.alloc(w).into_raw().cast());
        v
    });
    let by = y.try_alloc_with(|| {
        iy = match y.try_alloc(w) {
            Ok(b) => addr(b.into_raw().cast()),
            Err(_) => 0,
        };
        v
    });
    let Ok(by) = by else {
        panic!("C17/C07: try_alloc_with failed where alloc_with returned normally");
    };
    check!(*bx == v && *by == v, "C17: twins stored different values");
    let (ax, ay) = (addr(bx.into_raw().cast()), addr(by.into_raw().cast()));
    let (cx, cy) = (addr(x.stats().current_chunk().unwrap().chunk_start()), addr(y.stats().current_chunk().unwrap().chunk_start()));
    check!(ix != 0 && iy != 0, "C17: the allocation inside the closure failed although memory is available");
    check!(ix - cx == iy - cy, "C17: the block allocated inside the closure lies at different offsets through alloc_with and try_alloc_with");
    assert_same(&observe(&x, Some(ax)), &observe(&y, Some(ay)));
    kani::cover!(true, "END: harness ran to completion");
}

/// `try_reserve(20)` (more than the 16-byte chunk holds) through the typed handle vs. through `&dyn BumpAllocatorCore`:
/// same chunk count, same allocated byte count, and the same offset for the next allocation
fn reserve_typed_vs_dyn<St: BumpAllocatorSettings>()
where
    VA: BaseAllocator<St::GuaranteedAllocated>,
{
    let Some((x, y)) = two::<St>() else { return };
    let (x, y) = (core::mem::ManuallyDrop::new(x), core::mem::ManuallyDrop::new(y));
    set_budget(2);
    let rx = x.try_reserve(20);
    let dy: &dyn BumpAllocatorCore = &*y;
    let ry = dy.try_reserve(20);
    set_budget(0);
    check!(rx.is_ok() == ry.is_ok(), "C17: reserve succeeded through one entry point and failed through the other");
    kani::cover!(rx.is_ok() && x.stats().count() == 2, "reserve created a second chunk");
    check!(x.stats().count() == y.stats().count(), "C17: reserve through the typed handle and through dyn left different chunk counts");
    check!(x.stats().allocated() == y.stats().allocated(), "C17: reserve through the typed handle and through dyn left different allocated byte counts");
    // the next (small) request lands at the same place
    let v: u8 = kani::any();
    let (bx, by) = (x.try_alloc(v), y.try_alloc(v));
    check!(bx.is_ok() == by.is_ok(), "C17: after reserve one arena can allocate and the other cannot");
    if let (Ok(bx), Ok(by)) = (bx, by) {
        let (ax, ay) = (addr(bx.into_raw().cast()), addr(by.into_raw().cast()));
        assert_same(&observe(&x, Some(ax)), &observe(&y, Some(ay)));
    }
    kani::cover!(true, "END: harness ran to completion");
}

/// a BumpVec backed by the typed handle vs. one backed by `&dyn BumpAllocatorCore`: the same pushes and the same
/// shrink leave the same allocated byte count and the same offsets (settings with DEALLOCATES / SHRINKS opt-outs)
fn vec_typed_vs_dyn<St: BumpAllocatorSettings>()
where
    VA: BaseAllocator<St::GuaranteedAllocated>,
{
    let Some((x, y)) = two::<St>() else { return };
    let (x, y) = (core::mem::ManuallyDrop::new(x), core::mem::ManuallyDrop::new(y));
    let vals: [u8; 2] = kani::any();
    let op: u8 = kani::any();
    kani::assume(op < 2);
    let dy: &dyn BumpAllocatorCoreScope = y.as_scope();
    let Ok(mut vx) = bump_scope::BumpVec::<u8, _>::try_with_capacity_in(5, &*x) else { return };
    let Ok(mut vy) = bump_scope::BumpVec::<u8, _>::try_with_capacity_in(5, dy) else { return };
    check!(vx.try_push(vals[0]).is_ok() && vy.try_push(vals[0]).is_ok(), "push within capacity");
    check!(vx.try_push(vals[1]).is_ok() && vy.try_push(vals[1]).is_ok(), "push within capacity");
    let (ax, ay) = if op == 0 {
        vx.shrink_to_fit();
        vy.shrink_to_fit();
        let r = (vx.as_ptr() as usize, vy.as_ptr() as usize);
        core::mem::forget(vx);
        core::mem::forget(vy);
        r
    } else {
        let (bx, by) = (vx.into_boxed_slice(), vy.into_boxed_slice());
        check!(bx[0] == by[0] && bx[1] == by[1] && bx.len() == by.len(), "C17: entry points produced different contents");
        let r = (bx.as_ptr() as usize, by.as_ptr() as usize);
        core::mem::forget(bx);
        core::mem::forget(by);
        r
    };
    assert_same(&observe(&x, Some(ax)), &observe(&y, Some(ay)));
    kani::cover!(op == 0, "shrink_to_fit through both entry points");
    kani::cover!(true, "END: harness ran to completion");
}

macro_rules! h {
    ($name:ident, $body:expr) => {
        #[kani::proof]
        #[kani::unwind(6)]
        #[kani::stub(std::alloc::handle_alloc_error, crate::stubs::hae_stub)]
        fn $name() {
            $body;
        }
    };
}
h!(entry_sized_u8_up1, sized_vs_layout::<S<1, true>, u8>());
h!(entry_sized_u32_up1, sized_vs_layout::<S<1, true>, u32>());
h!(entry_sized_u8x3_down1, sized_vs_layout::<S<1, false>, [u8; 3]>());
h!(entry_sized_u64_down4, sized_vs_layout::<S<4, false>, u64>());
h!(entry_sized_u64x2_up8, sized_vs_layout::<S<8, true>, [u64; 2]>());
h!(entry_sized_u64x3_up1, sized_vs_layout::<S<1, true>, [u64; 3]>());
h!(entry_slice_u8_up1, slice_vs_layout::<S<1, true>, u8>());
h!(entry_slice_u32_down1, slice_vs_layout::<S<1, false>, u32>());
h!(entry_slice_u16_up4, slice_vs_layout::<S<4, true>, u16>());
h!(entry_handles_up1, handles::<S<1, true>>());
h!(entry_handles_down8, handles::<S<8, false>>());
h!(entry_twin_up1, panicking_twin::<S<1, true>>());
h!(entry_twin_down1, panicking_twin::<S<1, false>>());
h!(entry_twin_with_closure_up1, twin_with_closure::<S<1, true>>());
h!(entry_twin_with_closure_down1, twin_with_closure::<S<1, false>>());
h!(entry_reserve_typed_vs_dyn_up1, reserve_typed_vs_dyn::<S<1, true>>());
h!(entry_reserve_typed_vs_dyn_down1, reserve_typed_vs_dyn::<S<1, false>>());
h!(entry_vec_typed_vs_dyn_up1, vec_typed_vs_dyn::<S<1, true>>());
h!(entry_vec_typed_vs_dyn_nodealloc_up1, vec_typed_vs_dyn::<S<1, true, true, false, true>>());
h!(entry_vec_typed_vs_dyn_nodealloc_down4, vec_typed_vs_dyn::<S<4, false, true, false, true>>());
h!(entry_vec_typed_vs_dyn_noshrink_down1, vec_typed_vs_dyn::<S<1, false, true, true, false>>());
