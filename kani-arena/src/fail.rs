//! C07 — allocation failure is reported as an error and leaves all state intact; overflowing requests are errors;
//! panicking methods never return normally when memory is refused.
use crate::check;
use crate::common::*;
use bump_scope::alloc::Allocator;
use bump_scope::settings::BumpAllocatorSettings;
use bump_scope::{BaseAllocator, Bump, BumpVec, MutBumpVec};
use core::alloc::Layout;

/// try_ constructors under a refusing base allocator: error, nothing granted, nothing leaked
#[kani::proof]
#[kani::unwind(6)]
#[kani::stub(std::alloc::handle_alloc_error, crate::stubs::hae_stub)]
fn fail_constructors() {
    set_budget(0);
    let which: u8 = kani::any();
    kani::assume(which < 4);
    let l = any_layout(64, 5);
    let n: usize = kani::any();
    let r = match which {
        0 => Bump::<VA, S<1, true>>::try_new().is_ok(),
        1 => Bump::<VA, S<1, false>>::try_with_size(n).is_ok(),
        2 => Bump::<VA, S<1, true>>::try_with_capacity(l).is_ok(),
        _ => Bump::<VA, S<1, true>>::try_new_in(VA).is_ok(),
    };
    check!(!r, "C07: a constructor succeeded although the base allocator refuses memory");
    check!(grants() == 0 && live_grants() == 0, "C07: a failed constructor holds memory");
    kani::cover!(which == 1 && n == usize::MAX, "huge size hint");
    kani::cover!(true, "END: harness ran to completion");
}

/// overflowing size computations are errors, never wrapped sizes (full width; no memory is touched)
#[kani::proof]
#[kani::unwind(6)]
#[kani::stub(std::alloc::handle_alloc_error, crate::stubs::hae_stub)]
fn fail_overflow() {
    set_budget(1);
    let Ok(bump) = Bump::<VA, S<1, true>>::try_new() else { return };
    // never run Drop for Bump on early-return paths (it walks the chunk list and calls the base allocator: pure cost)
    let mut bump = core::mem::ManuallyDrop::new(bump);
    // budget stays 1: even with memory available a wrapped size must not be served
    let n: usize = kani::any();
    let pos0 = addr(bump.stats().current_chunk().unwrap().bump_position());
    let which: u8 = kani::any();
    kani::assume(which < 4);
    match which {
        0 => {
            kani::assume(n > (isize::MAX as usize) / 8);
            check!(bump.try_alloc_uninit_slice::<u64>(n).is_err(), "C07: overflowing slice allocation succeeded");
        }
        1 => {
            kani::assume(n > isize::MAX as usize);
            check!(bump.try_reserve(n).is_err(), "C07: overflowing reserve succeeded");
        }
        2 => {
            kani::assume(n > (isize::MAX as usize) / 4);
            check!(BumpVec::<u32, _>::try_with_capacity_in(n, &*bump).is_err(), "C07: overflowing BumpVec capacity succeeded");
        }
        _ => {
            kani::assume(n > (isize::MAX as usize) / 2);
            let mut v: BumpVec<u16, _> = BumpVec::new_in(&*bump);
            check!(v.try_reserve(n).is_err(), "C07: overflowing BumpVec::try_reserve succeeded");
            check!(v.len() == 0, "C07: failed reserve changed the length");
        }
    }
    check!(grants() == 1, "C07: an overflowing request reached the base allocator successfully");
    check!(addr(bump.stats().current_chunk().unwrap().bump_position()) == pos0, "C07: an overflowing request moved the bump position");
    kani::cover!(true, "END: harness ran to completion");
}

/// growing / reserving by a HUGE amount that still forms a valid Layout (<= isize::MAX, far more than the block's own
/// address): Err without panicking, arena exactly where it was (fourth-round seeded change: the downward in-place
/// grow computed `addr - additional_size` without saturation)
fn fail_huge_grow<const UP: bool>() {
    set_budget(1);
    let Ok(bump) = Bump::<VA, S<1, UP>>::try_new() else { return };
    let mut bump = core::mem::ManuallyDrop::new(bump);
    set_budget(0);
    let w1 = Win::of(bump.stats().current_chunk().unwrap());
    let lb = any_layout(8, 0);
    kani::assume(lb.size() > 0);
    let Ok(b) = bump.allocate(lb) else { return };
    let b = b.cast::<u8>();
    let (vb, ib): (u8, usize) = (kani::any(), kani::any());
    kani::assume(ib < lb.size());
    unsafe { w1.write(addr(b) + ib, vb) };
    let pos0 = addr(bump.stats().current_chunk().unwrap().bump_position());
    let n: usize = kani::any();
    kani::assume(n >= (1usize << 32) && n <= isize::MAX as usize);
    let ln = Layout::from_size_align(n, 1).unwrap();
    let zeroed: bool = kani::any();
    let r = if zeroed { unsafe { bump.grow_zeroed(b, lb, ln) } } else { unsafe { bump.grow(b, lb, ln) } };
    check!(r.is_err(), "C07: growing the newest block to a size no chunk can hold succeeded");
    check!(addr(bump.stats().current_chunk().unwrap().bump_position()) == pos0, "C07: a failed huge grow moved the bump position");
    check!(unsafe { w1.read(addr(b) + ib) } == vb, "C07: a failed huge grow changed the block");
    check!(bump.stats().count() == 1, "C07: a failed huge grow changed the chunk list");
    kani::cover!(n == isize::MAX as usize, "grow to isize::MAX bytes");
    kani::cover!(true, "END: harness ran to completion");
}

#[kani::proof]
#[kani::unwind(6)]
#[kani::stub(std::alloc::handle_alloc_error, crate::stubs::hae_stub)]
fn fail_huge_grow_down1() {
    fail_huge_grow::<false>();
}

#[kani::proof]
#[kani::unwind(6)]
#[kani::stub(std::alloc::handle_alloc_error, crate::stubs::hae_stub)]
fn fail_huge_grow_up1() {
    fail_huge_grow::<true>();
}

/// a request that needs a new chunk while the base allocator refuses: Err, earlier block and position intact,
/// chunk list unchanged, a later request that fits still succeeds
fn fail_switch_body<St: BumpAllocatorSettings>()
where
    VA: BaseAllocator<St::GuaranteedAllocated>,
{
    set_budget(1);
    let Ok(bump) = Bump::<VA, St>::try_new() else { return };
    // never run Drop for Bump on early-return paths (it walks the chunk list and calls the base allocator: pure cost)
    let mut bump = core::mem::ManuallyDrop::new(bump);
    set_budget(0);
    let w1 = Win::of(bump.stats().current_chunk().unwrap());
    let la = any_layout(6, 2);
    let Ok(a) = bump.allocate(la) else { return };
    let a = a.cast::<u8>();
    let va: u8 = kani::any();
    let ia: usize = kani::any();
    kani::assume(la.size() > 0 && ia < la.size());
    unsafe { w1.write(addr(a) + ia, va) };
    let pos0 = addr(bump.stats().current_chunk().unwrap().bump_position());
    let alloc0 = bump.stats().allocated();
    // a request that cannot fit in 16 bytes of capacity
    let big = Layout::from_size_align(17 + (kani::any::<u8>() as usize % 8), 1usize << (kani::any::<u8>() % 4)).unwrap();
    let which: u8 = kani::any();
    kani::assume(which < 4);
    let ok = match which {
        0 => bump.allocate(big).is_ok(),
        1 => bump.allocate_zeroed(big).is_ok(),
        2 => unsafe { bump.grow(a, la, big) }.is_ok(),
        _ => bump.try_reserve(17).is_ok(),
    };
    check!(!ok, "C07: a request that needs a new chunk succeeded although the base allocator refuses memory");
    check!(calls() == 2, "C07: the failed request did not ask the base allocator exactly once");
    check!(bump.stats().count() == 1, "C07: failed chunk creation linked a chunk");
    check!(addr(bump.stats().current_chunk().unwrap().bump_position()) == pos0, "C07: failed request moved the bump position");
    check!(bump.stats().allocated() == alloc0, "C07: failed request changed the allocated byte count");
    check!(unsafe { w1.read(addr(a) + ia) } == va, "C07: failed request disturbed an earlier block");
    // keeps working
    let small = any_layout(2, 0);
    let fits = bump.stats().remaining() >= 2 + 16; // conservative: anything <= remaining minus padding fits
    let r = bump.allocate(small);
    if bump.stats().remaining() >= 2 {
        kani::cover!(r.is_ok(), "a later request that fits succeeds");
    }
    if let Ok(p) = r {
        check!(disjoint(addr(p.cast()), small.size(), addr(a), la.size()), "C07/C01: block after a failure overlaps an earlier block");
    }
    kani::cover!(true, "END: harness ran to completion");
}

#[kani::proof]
#[kani::unwind(6)]
#[kani::stub(std::alloc::handle_alloc_error, crate::stubs::hae_stub)]
fn fail_switch_up1() {
    fail_switch_body::<S<1, true>>();
}

#[kani::proof]
#[kani::unwind(6)]
#[kani::stub(std::alloc::handle_alloc_error, crate::stubs::hae_stub)]
fn fail_switch_down4() {
    fail_switch_body::<S<4, false>>();
}

/// first allocation on an unallocated arena while the base allocator refuses
#[kani::proof]
#[kani::unwind(6)]
#[kani::stub(std::alloc::handle_alloc_error, crate::stubs::hae_stub)]
fn fail_unallocated() {
    set_budget(0);
    let bump = core::mem::ManuallyDrop::new(Bump::<VA, S<1, true, false>>::unallocated());
    let l = any_layout(8, 3);
    kani::assume(l.size() > 0);
    let which: u8 = kani::any();
    let ok = match which % 3 {
        0 => bump.allocate(l).is_ok(),
        1 => bump.try_reserve(l.size()).is_ok(),
        _ => bump.try_alloc_uninit::<u32>().is_ok(),
    };
    check!(!ok, "C07: first allocation succeeded although the base allocator refuses memory");
    check!(bump.stats().count() == 0, "C07: failed first allocation left a chunk");
    // and it recovers once memory is available
    set_budget(1);
    let r = bump.allocate(l);
    kani::cover!(r.is_ok(), "recovers when memory is available again");
    set_budget(0);
    kani::cover!(true, "END: harness ran to completion");
}

/// collection growth under refusal: a failed try_push / try_reserve / try_extend leaves length and contents
fn fail_vec_body<const UP: bool>() {
    set_budget(1);
    let Ok(bump) = Bump::<VA, S<1, UP>>::try_new() else { return };
    // never run Drop for Bump on early-return paths (it walks the chunk list and calls the base allocator: pure cost)
    let mut bump = core::mem::ManuallyDrop::new(bump);
    set_budget(0);
    let Ok(mut v) = BumpVec::<u8, _>::try_with_capacity_in(3, &*bump) else { return };
    let x: [u8; 3] = kani::any();
    let n: usize = kani::any();
    kani::assume(n <= 3);
    if n > 0 {
        check!(v.try_push(x[0]).is_ok(), "push within capacity failed");
    }
    if n > 1 {
        check!(v.try_push(x[1]).is_ok(), "push within capacity failed");
    }
    if n > 2 {
        check!(v.try_push(x[2]).is_ok(), "push within capacity failed");
    }
    let p0 = v.as_ptr() as usize;
    let which: u8 = kani::any();
    kani::assume(which < 4);
    let ok = match which {
        0 => v.try_reserve(64).is_ok(),
        1 => v.try_extend_from_slice_copy(&[9u8; 20]).is_ok(),
        2 => v.try_resize(40, 7).is_ok(),
        _ => {
            // push until it must grow: capacity may be larger than 3 (the vector takes what the chunk offers)
            let cap = v.capacity();
            if v.len() == cap {
                v.try_push(1).is_ok()
            } else {
                false
            }
        }
    };
    check!(!ok, "C07: vector growth succeeded although the base allocator refuses memory");
    check!(v.len() == n, "C07: failed growth changed the vector's length");
    check!(v.as_ptr() as usize == p0, "C07: failed growth moved the vector's buffer");
    if n > 0 {
        check!(v[0] == x[0], "C07: failed growth changed the vector's contents");
    }
    if n > 2 {
        check!(v[2] == x[2], "C07: failed growth changed the vector's contents");
    }
    kani::cover!(n == 3 && which == 1, "extend of a three-element vector refused");
    core::mem::forget(v);
    kani::cover!(true, "END: harness ran to completion");
}

#[kani::proof]
#[kani::unwind(6)]
#[kani::stub(std::alloc::handle_alloc_error, crate::stubs::hae_stub)]
fn fail_vec_up() {
    fail_vec_body::<true>();
}

#[kani::proof]
#[kani::unwind(6)]
#[kani::stub(std::alloc::handle_alloc_error, crate::stubs::hae_stub)]
fn fail_vec_down() {
    fail_vec_body::<false>();
}

/// the panicking twin under refusal never returns normally: it ends in handle_alloc_error (stubbed by a panic)
#[kani::proof]
#[kani::unwind(6)]
#[kani::stub(std::alloc::handle_alloc_error, crate::stubs::hae_stub)]
fn panic_alloc_refused() {
    set_budget(1);
    let Ok(bump) = Bump::<VA, S<1, true>>::try_new() else { return };
    // never run Drop for Bump on early-return paths (it walks the chunk list and calls the base allocator: pure cost)
    let mut bump = core::mem::ManuallyDrop::new(bump);
    set_budget(0);
    kani::cover!(true, "REACH: arena exists");
    let which: u8 = kani::any();
    match which % 3 {
        0 => {
            let b = bump.alloc([0u64; 3]);
            core::mem::forget(b);
        }
        1 => bump.reserve(100),
        _ => {
            let b = bump.alloc_uninit_slice::<u32>(9);
            core::mem::forget(b);
        }
    }
    kani::cover!(true, "UNSAT: a panicking allocation method returned normally although memory was refused");
}

/// capacity overflow in a panicking method is a panic, never a normal return
#[kani::proof]
#[kani::unwind(6)]
#[kani::stub(std::alloc::handle_alloc_error, crate::stubs::hae_stub)]
fn panic_capacity_overflow() {
    set_budget(1);
    let Ok(bump) = Bump::<VA, S<1, true>>::try_new() else { return };
    // never run Drop for Bump on early-return paths (it walks the chunk list and calls the base allocator: pure cost)
    let mut bump = core::mem::ManuallyDrop::new(bump);
    kani::cover!(true, "REACH: arena exists");
    let n: usize = kani::any();
    kani::assume(n > (isize::MAX as usize) / 8);
    let b = bump.alloc_uninit_slice::<u64>(n);
    kani::cover!(true, "UNSAT: an overflowing panicking allocation returned normally");
    core::mem::forget(b);
}
