//! Arena-backed halves of C06 / C08 / C16: BumpVec growth (amortised, in place vs. moved), drop accounting across a
//! reallocation, split_off parts that are independent with respect to the real allocator, shrink_to_fit.
use crate::check;
use crate::common::*;
use bump_scope::alloc::Allocator;
use bump_scope::settings::BumpAllocatorSettings;
use bump_scope::{BaseAllocator, Bump, BumpVec};
use core::alloc::Layout;

pub static mut DROPS: [u8; 8] = [0; 8];

/// instrumented element (2 bytes): a second drop is an immediate failed check
pub struct D {
    id: u8,
    val: u8,
}
impl Drop for D {
    fn drop(&mut self) {
        unsafe {
            let i = self.id as usize;
            check!(i < 8, "C06: dropped a value that was never created");
            check!(DROPS[i] == 0, "C06: value dropped twice");
            DROPS[i] = 1;
        }
    }
}

/// BumpVec<u8>: `try_push` beyond capacity. FILL_AFTER = 0: the buffer is the newest allocation (grows in place when
/// there is room, upwards); > 0: another block sits behind it (must move).
fn push_grow<St: BumpAllocatorSettings, const CAP0: usize, const FILL_AFTER: usize>(budget: usize)
where
    VA: BaseAllocator<St::GuaranteedAllocated>,
{
    set_budget(1);
    let Ok(bump) = Bump::<VA, St>::try_new() else { return };
    // never run Drop for Bump on early-return paths (it walks the chunk list and calls the base allocator: pure cost)
    let mut bump = core::mem::ManuallyDrop::new(bump);
    set_budget(0);
    let Ok(mut v) = BumpVec::<u8, _>::try_with_capacity_in(CAP0, &*bump) else { return };
    check!(v.capacity() >= CAP0, "C08: capacity smaller than with_capacity promised");
    let vals: [u8; 4] = kani::any();
    let p0 = v.as_ptr() as usize;
    // fill to capacity (CAP0 <= 3): no reallocation while the promise suffices
    let cap = v.capacity();
    kani::assume(cap == CAP0);
    let mut k = 0;
    while k < 3 {
        if k < CAP0 {
            check!(v.try_push(vals[k]).is_ok(), "C08: push within capacity failed");
            check!(v.as_ptr() as usize == p0, "C08: buffer moved although the reserved capacity suffices");
        }
        k += 1;
    }
    if FILL_AFTER > 0 {
        let Ok(_) = bump.allocate(Layout::from_size_align(FILL_AFTER, 1).unwrap()) else { return };
    }
    set_budget(budget);
    let r = v.try_push(vals[3]);
    set_budget(0);
    kani::cover!(r.is_ok() && v.as_ptr() as usize == p0, "[inplace] grew in place");
    kani::cover!(r.is_ok() && v.as_ptr() as usize != p0, "[moved] grew by moving");
    kani::cover!(r.is_err(), "[fail] growth failed");
    match r {
        Ok(()) => {
            check!(v.len() == CAP0 + 1 && v.capacity() >= v.len(), "C08: len/capacity after growth");
            // amortised: capacity at least doubles (or reaches the minimum non-zero capacity)
            check!(v.capacity() >= 2 * CAP0, "C08: growth is not amortised");
            let mut k = 0;
            while k < 3 {
                if k < CAP0 {
                    check!(v[k] == vals[k], "C08/C02: growth lost or changed an element");
                }
                k += 1;
            }
            check!(v[CAP0] == vals[3], "C08: pushed element differs");
        }
        Err(_) => {
            check!(v.len() == CAP0 && v.as_ptr() as usize == p0, "C07: failed push changed the vector");
        }
    }
    core::mem::forget(v);
    kani::cover!(true, "END: harness ran to completion");
}

/// BumpVec<D>: push across a reallocation moves the elements (no drop), dropping the vector drops each exactly once
fn push_grow_drops<St: BumpAllocatorSettings, const FILL_AFTER: usize>(budget: usize)
where
    VA: BaseAllocator<St::GuaranteedAllocated>,
{
    set_budget(1);
    let Ok(bump) = Bump::<VA, St>::try_new() else { return };
    // never run Drop for Bump on early-return paths (it walks the chunk list and calls the base allocator: pure cost)
    let mut bump = core::mem::ManuallyDrop::new(bump);
    set_budget(0);
    let Ok(mut v) = BumpVec::<D, _>::try_with_capacity_in(2, &*bump) else { return };
    kani::assume(v.capacity() == 2);
    let vals: [u8; 3] = kani::any();
    check!(v.try_push(D { id: 0, val: vals[0] }).is_ok(), "push within capacity");
    check!(v.try_push(D { id: 1, val: vals[1] }).is_ok(), "push within capacity");
    if FILL_AFTER > 0 {
        let Ok(_) = bump.allocate(Layout::from_size_align(FILL_AFTER, 1).unwrap()) else { return };
    }
    set_budget(budget);
    let r = v.try_push(D { id: 2, val: vals[2] });
    set_budget(0);
    unsafe {
        check!(DROPS[0] == 0 && DROPS[1] == 0, "C06: growth dropped elements that were moved");
    }
    match r {
        Ok(()) => {
            check!(v.len() == 3 && v[0].val == vals[0] && v[1].val == vals[1] && v[2].val == vals[2] && v[0].id == 0 && v[1].id == 1 && v[2].id == 2, "C08: contents after growth");
            unsafe { assert!(DROPS[2] == 0, "C06: pushed element dropped") };
        }
        Err(_) => {
            // the rejected value was consumed by the failed call
            unsafe { assert!(DROPS[2] == 1, "C06: value of a failed push lost or dropped twice") };
            check!(v.len() == 2, "C07: failed push changed the length");
        }
    }
    kani::cover!(r.is_ok(), "grew");
    drop(v);
    unsafe {
        check!(DROPS[0] == 1 && DROPS[1] == 1 && DROPS[2] == 1, "C06: elements not dropped exactly once after the vector was dropped");
    }
    kani::cover!(true, "END: harness ran to completion");
}

/// BumpVec<u8>::split_off(at..) then one operation on one part through the real allocator; the sibling is unaffected
fn split_independent<St: BumpAllocatorSettings>(budget: usize)
where
    VA: BaseAllocator<St::GuaranteedAllocated>,
{
    set_budget(1);
    let Ok(bump) = Bump::<VA, St>::try_new() else { return };
    // never run Drop for Bump on early-return paths (it walks the chunk list and calls the base allocator: pure cost)
    let mut bump = core::mem::ManuallyDrop::new(bump);
    set_budget(0);
    let Ok(mut v) = BumpVec::<u8, _>::try_with_capacity_in(6, &*bump) else { return };
    kani::assume(v.capacity() == 6);
    let vals: [u8; 4] = kani::any();
    let mut k = 0;
    while k < 4 {
        check!(v.try_push(vals[k]).is_ok(), "push within capacity");
        k += 1;
    }
    let at: usize = kani::any();
    kani::assume(at <= 4);
    let front: bool = kani::any();
    // `other` is the split-off part, `v` keeps the rest; both claim parts of one allocation
    let mut other = if front { v.split_off(..at) } else { v.split_off(at..) };
    let (lo, hi) = if front { (&other, &v) } else { (&v, &other) };
    check!(lo.len() == at && hi.len() == 4 - at, "C16: split_off lengths");
    check!(lo.capacity() + hi.capacity() == 6, "C16: capacities of the parts do not add up");
    let mut k = 0;
    while k < 4 {
        if k < at {
            check!(lo[k] == vals[k], "C16: front part differs");
        } else {
            check!(hi[k - at] == vals[k], "C16: back part differs");
        }
        k += 1;
    }
    let (pl, ph) = (lo.as_ptr() as usize, hi.as_ptr() as usize);
    check!(pl + lo.capacity() <= ph || lo.capacity() == 0 || hi.capacity() == 0, "C16: capacity ranges of the parts overlap");
    // one follow-up on `other`; `v` must keep its contents
    let keep_len = v.len();
    let keep_first = if keep_len > 0 { v[0] } else { 0 };
    let keep_last = if keep_len > 0 { v[keep_len - 1] } else { 0 };
    let op: u8 = kani::any();
    kani::assume(op < 4);
    set_budget(budget);
    match op {
        0 => {
            // push until it has to grow (capacity of a part may be exhausted at once)
            let _ = other.try_push(0xA1);
            let _ = other.try_push(0xA2);
            let _ = other.try_push(0xA3);
        }
        1 => other.shrink_to_fit(),
        2 => drop(core::mem::replace(&mut other, BumpVec::new_in(&*bump))),
        _ => {
            let b = core::mem::replace(&mut other, BumpVec::new_in(&*bump)).into_boxed_slice();
            core::mem::forget(b);
        }
    }
    set_budget(0);
    kani::cover!(op == 0 && at == 2, "pushed into one half");
    kani::cover!(op == 1 && at == 1 && !front, "shrink_to_fit of the newest part");
    check!(v.len() == keep_len, "C16: operating on one part changed the length of the other");
    if keep_len > 0 {
        check!(v[0] == keep_first && v[keep_len - 1] == keep_last, "C16: operating on one part changed the contents of the other");
    }
    // and the sibling can still be used
    let r = v.try_push(0x5A);
    if r.is_ok() {
        check!(v[keep_len] == 0x5A && (keep_len == 0 || v[0] == keep_first), "C16: sibling unusable after the follow-up");
    }
    core::mem::forget(other);
    core::mem::forget(v);
    kani::cover!(true, "END: harness ran to completion");
}

/// capacity arithmetic of reserve with ANY additional (full width) on a one-element vector
#[kani::proof]
#[kani::unwind(8)]
#[kani::stub(std::alloc::handle_alloc_error, crate::stubs::hae_stub)]
fn vec_reserve_any() {
    set_budget(1);
    let Ok(bump) = Bump::<VA, S<1, true>>::try_new() else { return };
    // never run Drop for Bump on early-return paths (it walks the chunk list and calls the base allocator: pure cost)
    let mut bump = core::mem::ManuallyDrop::new(bump);
    set_budget(0);
    let Ok(mut v) = BumpVec::<u16, _>::try_with_capacity_in(1, &*bump) else { return };
    check!(v.try_push(7).is_ok(), "push");
    let additional: usize = kani::any();
    let exact: bool = kani::any();
    let cap0 = v.capacity();
    let r = if exact { v.try_reserve_exact(additional) } else { v.try_reserve(additional) };
    kani::cover!(r.is_ok() && v.capacity() > cap0, "reserve grew the vector");
    kani::cover!(r.is_err() && additional > (isize::MAX as usize), "overflowing reserve refused");
    match r {
        Ok(()) => {
            check!(v.capacity() >= 1 + additional, "C08: capacity smaller than reserve promised");
            check!(v.capacity() >= v.len(), "C08: capacity < len");
        }
        Err(_) => check!(v.capacity() == cap0, "C07: failed reserve changed the capacity"),
    }
    check!(v.len() == 1 && v[0] == 7, "C07/C08: reserve changed the contents");
    core::mem::forget(v);
    kani::cover!(true, "END: harness ran to completion");
}

/// BumpVec<u8> shrink paths (shrink_to_fit / shrink_to / into_boxed_slice) when MIN_ALIGN > align_of::<T>():
/// the bump position stays a multiple of MIN_ALIGN (C10), contents survive, the next block is disjoint and aligned
fn shrink_min_align<St: BumpAllocatorSettings>()
where
    VA: BaseAllocator<St::GuaranteedAllocated>,
{
    set_budget(1);
    let Ok(bump) = Bump::<VA, St>::try_new() else { return };
    // never run Drop for Bump on early-return paths (it walks the chunk list and calls the base allocator: pure cost)
    let mut bump = core::mem::ManuallyDrop::new(bump);
    set_budget(0);
    // capacity 7: (capacity - len) is never a multiple of 4 or 8 for len <= 3
    let cap0: usize = 7;
    let Ok(mut v) = BumpVec::<u8, _>::try_with_capacity_in(cap0, &*bump) else { return };
    let vals: [u8; 3] = kani::any();
    let n: usize = kani::any();
    kani::assume(n <= 3 && n <= v.capacity());
    let mut k = 0;
    while k < 3 {
        if k < n {
            check!(v.try_push(vals[k]).is_ok(), "push within capacity");
        }
        k += 1;
    }
    let op: u8 = kani::any();
    kani::assume(op < 3);
    let (p, len) = match op {
        0 => {
            v.shrink_to_fit();
            check!(v.capacity() >= v.len(), "C08: capacity < len after shrink_to_fit");
            let r = (v.as_ptr() as usize, v.len());
            core::mem::forget(v);
            r
        }
        1 => {
            let m: usize = kani::any();
            v.shrink_to(m);
            check!(v.capacity() >= v.len() && (v.capacity() >= m || v.capacity() >= cap0.min(m)), "C08: capacity after shrink_to");
            let r = (v.as_ptr() as usize, v.len());
            core::mem::forget(v);
            r
        }
        _ => {
            let b = v.into_boxed_slice();
            let r = (b.as_ptr() as usize, b.len());
            core::mem::forget(b);
            r
        }
    };
    check!(len == n, "C08: shrinking changed the length");
    let cur = bump.stats().current_chunk().unwrap();
    check!(addr(cur.bump_position()) % St::MIN_ALIGN == 0, "C10: bump position is not a multiple of the minimum alignment after shrinking a vector");
    kani::cover!(op == 0 && n == 2 && cap0 == 7, "shrink_to_fit 7 -> 2");
    let w = Win::of(cur);
    if n > 0 {
        check!(unsafe { w.read(p) } == vals[0] && unsafe { w.read(p + n - 1) } == vals[n - 1], "C02/C08: shrinking changed the contents");
    }
    // the next allocation is aligned to MIN_ALIGN-or-better and disjoint from the vector's elements
    if let Ok(q) = bump.try_alloc_uninit::<u8>() {
        let q = q.into_raw().as_ptr() as usize;
        check!(disjoint(q, 1, p, n), "C01: allocation after shrinking overlaps the vector's elements");
    }
    kani::cover!(true, "END: harness ran to completion");
}

// No copy stub here: BumpVec grows and shrinks through the allocator's byte-level grow/shrink (u8 copies, which CBMC
// models correctly); stubbing them turns every arena copy into a 16-arm case split over symbolic pointers.
macro_rules! h {
    ($name:ident, $body:expr) => {
        #[kani::proof]
        #[kani::unwind(8)]
        #[kani::stub(std::alloc::handle_alloc_error, crate::stubs::hae_stub)]
        fn $name() {
            $body;
        }
    };
}
h!(vec_push_grow_up1_newest, push_grow::<S<1, true>, 3, 0>(0));
h!(vec_push_grow_down1_newest, push_grow::<S<1, false>, 3, 0>(0));
h!(vec_push_grow_up1_blocked, push_grow::<S<1, true>, 2, 1>(0));
h!(vec_push_grow_up1_newchunk, push_grow::<S<1, true>, 3, 10>(1));
h!(vec_push_grow_down4_newchunk, push_grow::<S<4, false>, 3, 10>(1));
h!(vec_push_grow_drops_up1, push_grow_drops::<S<1, true>, 0>(0));
h!(vec_push_grow_drops_down1_blocked, push_grow_drops::<S<1, false>, 1>(0));
h!(vec_push_grow_drops_up1_newchunk, push_grow_drops::<S<1, true>, 11>(1));
h!(vec_split_independent_up1, split_independent::<S<1, true>>(0));
h!(vec_split_independent_down1, split_independent::<S<1, false>>(0));
h!(vec_split_independent_up1_b1, split_independent::<S<1, true>>(1));
h!(vec_shrink_min_align_down8, shrink_min_align::<S<8, false>>());
h!(vec_shrink_min_align_up4, shrink_min_align::<S<4, true>>());
h!(vec_shrink_min_align_down1, shrink_min_align::<S<1, false>>());

