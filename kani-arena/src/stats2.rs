//! C10, type-erased == typed statistics in a state where a NON-current chunk carries a stale position: a second chunk
//! is created and used, then the arena goes back to the first one (THEN: 0 scope exit is not such a state and is left
//! to stats.rs; 1 reset_to_start; 2 reset_to(checkpoint taken in chunk 1)). One follow-up per harness: the symbolic
//! three-way version in stats.rs (PART 4) needs 12 GB.
use crate::check;
use crate::common::*;
use bump_scope::alloc::Allocator;
use bump_scope::settings::BumpAllocatorSettings;
use bump_scope::traits::BumpAllocatorCore;
use bump_scope::{BaseAllocator, Bump};
use core::alloc::Layout;

fn stale_chunk_body<A, St: BumpAllocatorSettings, const THEN: u8>()
where
    A: BaseAllocator<St::GuaranteedAllocated> + Default,
{
    set_budget(1);
    let Ok(bump) = Bump::<A, St>::try_new() else { return };
    let mut bump = core::mem::ManuallyDrop::new(bump);
    set_budget(0);
    let cp = bump.checkpoint();
    // cannot fit in the first chunk: chunk 2 is created and its position moves
    set_budget(1);
    let r = bump.allocate(Layout::from_size_align(24, 4).unwrap());
    set_budget(0);
    if r.is_err() || bump.stats().count() != 2 {
        return;
    }
    match THEN {
        1 => bump.reset_to_start(),
        _ => unsafe { bump.reset_to(cp) },
    }
    let typed = bump.stats();
    let any = bump.any_stats();
    kani::cover!(typed.current_chunk().map_or(false, |c| c.next().is_some()), "the current chunk is not the newest one");
    check!(any.count() == typed.count(), "C10: any_stats count differs from typed stats");
    check!(any.size() == typed.size(), "C10: any_stats size differs from typed stats");
    check!(any.capacity() == typed.capacity(), "C10: any_stats capacity differs from typed stats");
    check!(any.allocated() == typed.allocated(), "C10: any_stats allocated differs from typed stats");
    check!(any.remaining() == typed.remaining(), "C10: any_stats remaining differs from typed stats");
    check!(typed.allocated() + typed.remaining() == typed.capacity(), "C10: allocated + remaining != capacity");
    check!(any.allocated() + any.remaining() == any.capacity(), "C10: allocated + remaining != capacity (any_stats)");
    kani::cover!(true, "END: harness ran to completion");
}

macro_rules! stale_harness {
    ($name:ident, $A:ty, $S:ty, $then:literal) => {
        #[kani::proof]
        #[kani::unwind(6)]
        #[kani::stub(std::alloc::handle_alloc_error, crate::stubs::hae_stub)]
        fn $name() {
            stale_chunk_body::<$A, $S, $then>();
        }
    };
}
stale_harness!(stats_stale_chunk_reset_to_start_va_up1, VA, S<1, true>, 1);
stale_harness!(stats_stale_chunk_reset_to_va_down1, VA, S<1, false>, 2);
stale_harness!(stats_stale_chunk_reset_to_start_stateful_up1, VAStateful, S<1, true>, 1);
