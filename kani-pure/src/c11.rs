//! C11 — bump-pointer arithmetic is correct, tight and hint-independent.
//!
//! Functions encoded: `bump_up`, `bump_down`, `bump_prepare_up`, `bump_prepare_down`
//! (+ `down_align`, `up_align_unchecked`, `up_align`, `BumpProps::debug_assert_valid`)
//! from `/repo/src/bumping.rs`.
//!
//! Preconditions assumed = exactly `BumpProps::debug_assert_valid` + `Layout` validity + truthful hints
//! + `size_is_const => align_is_const` (stated in `bump_down` as an assumption of the code).

use crate::bumping::*;
use core::alloc::Layout;

pub(crate) const TOP: u128 = 1u128 << 64;

#[inline(always)]
pub(crate) fn wup(x: u128, align: u128) -> u128 {
    (x + (align - 1)) & !(align - 1)
}

#[inline(always)]
pub(crate) fn wdown(x: u128, align: u128) -> u128 {
    x & !(align - 1)
}

/// Any `Layout` that `Layout::from_size_align` accepts (alignment `1 << k`, `k < 64`).
pub(crate) fn any_layout() -> Layout {
    let k: u32 = kani::any();
    kani::assume(k < 64);
    let align = 1usize << k;
    let size: usize = kani::any();
    let l = Layout::from_size_align(size, align);
    kani::assume(l.is_ok());
    l.unwrap()
}

/// Any array layout (size a multiple of the alignment) — the inputs of the `prepare` variants.
pub(crate) fn any_array_layout() -> Layout {
    let l = any_layout();
    kani::assume(l.size() & (l.align() - 1) == 0);
    l
}

pub(crate) fn any_min_align() -> usize {
    let k: u32 = kani::any();
    kani::assume(k <= 4);
    1usize << k
}

/// A regular (non-dummy) free range as `debug_assert_valid` demands it.
pub(crate) fn any_regular_range(up: bool, min_align: usize) -> (usize, usize) {
    let start: usize = kani::any();
    let end: usize = kani::any();
    kani::assume(start != 0 && end != 0);
    kani::assume(start <= end);
    kani::assume(end - start <= isize::MAX as usize);
    if up {
        kani::assume(start & (min_align - 1) == 0);
        kani::assume(end & (MIN_CHUNK_ALIGN - 1) == 0);
    } else {
        kani::assume(start & (MIN_CHUNK_ALIGN - 1) == 0);
        kani::assume(end & (min_align - 1) == 0);
    }
    (start, end)
}

/// The dummy range of a claimed / unallocated arena: capacity -16.
pub(crate) fn any_dummy_range() -> (usize, usize) {
    let end: usize = kani::any();
    kani::assume(end != 0);
    kani::assume(end & (MIN_CHUNK_ALIGN - 1) == 0);
    kani::assume(end <= usize::MAX - 16);
    (end + 16, end)
}

#[derive(Clone, Copy)]
pub(crate) struct Hints {
    pub a: bool,
    pub s: bool,
    pub m: bool,
}

pub(crate) fn assume_truthful(h: Hints, layout: Layout) {
    // `size_is_const` implies `align_is_const` (assumption stated in bump_down)
    kani::assume(!h.s || h.a);
    // truthful
    kani::assume(!h.m || (layout.size() & (layout.align() - 1) == 0));
}

pub(crate) fn props(start: usize, end: usize, min_align: usize, layout: Layout, h: Hints) -> BumpProps {
    BumpProps {
        start,
        end,
        min_align,
        layout,
        align_is_const: h.a,
        size_is_const: h.s,
        size_is_multiple_of_align: h.m,
    }
}

// ---------------------------------------------------------------------------------------------
// bump_up against the wide-integer specification
// ---------------------------------------------------------------------------------------------

fn check_up(h: Hints) {
    let min_align = any_min_align();
    let layout = any_layout();
    assume_truthful(h, layout);
    let (start, end) = any_regular_range(true, min_align);

    let (s, e, size, align) = (start as u128, end as u128, layout.size() as u128, layout.align() as u128);
    let spec_ptr = wup(s, align);
    let fits = spec_ptr + size <= e;

    let r = bump_up(props(start, end, min_align, layout, h));

    kani::cover!(r.is_some(), "fits");
    kani::cover!(r.is_none(), "does not fit");
    kani::cover!(r.is_none() && spec_ptr + size >= TOP, "does not fit, would wrap the address space");

    match r {
        None => assert!(!fits, "C11 up: reported no fit although a suitably aligned block exists"),
        Some(BumpUp { new_pos, ptr }) => {
            assert!(fits, "C11 up: returned a block although none fits");
            assert!(ptr as u128 == spec_ptr, "C11 up: block is not the nearest aligned one");
            assert!(ptr >= start && (ptr as u128) + size <= e, "C11 up: block outside range");
            assert!(new_pos >= start && new_pos <= end, "C11 up: new position outside range");
            assert!(new_pos as u128 >= ptr as u128 + size, "C11 up: new position before block end");
            assert!(new_pos & (min_align - 1) == 0, "C11 up: new position not min-aligned");
        }
    }
}

macro_rules! per_hint {
    ($f:ident: $($name:ident = ($a:expr, $s:expr, $m:expr);)*) => {
        $(
            #[kani::proof]
            fn $name() {
                $f(Hints { a: $a, s: $s, m: $m });
            }
        )*
    };
}

per_hint! { check_up:
    c11_up_spec_fff = (false, false, false);
    c11_up_spec_fft = (false, false, true);
    c11_up_spec_tff = (true, false, false);
    c11_up_spec_tft = (true, false, true);
    c11_up_spec_ttf = (true, true, false);
    c11_up_spec_ttt = (true, true, true);
}

// ---------------------------------------------------------------------------------------------
// bump_down against the wide-integer specification
// ---------------------------------------------------------------------------------------------

fn check_down(h: Hints) {
    let min_align = any_min_align();
    let layout = any_layout();
    assume_truthful(h, layout);
    let (start, end) = any_regular_range(false, min_align);

    let (s, e, size, align) = (start as u128, end as u128, layout.size() as u128, layout.align() as u128);
    // "a suitably aligned block of that size exists in the range"
    let fits = wup(s, align) + size <= e;
    let eff = if align > min_align as u128 { align } else { min_align as u128 };

    let r = bump_down(props(start, end, min_align, layout, h));

    kani::cover!(r.is_some(), "fits");
    kani::cover!(r.is_none(), "does not fit");
    kani::cover!(r.is_none() && size > e, "does not fit, would go below zero");

    match r {
        None => assert!(!fits, "C11 down: reported no fit although a suitably aligned block exists"),
        Some(ptr) => {
            assert!(fits, "C11 down: returned a block although none fits");
            let spec_ptr = wdown(e - size, eff);
            assert!(ptr as u128 == spec_ptr, "C11 down: block is not the nearest aligned one");
            assert!(ptr & (layout.align() - 1) == 0, "C11 down: block misaligned");
            assert!(ptr >= start && (ptr as u128) + size <= e, "C11 down: block outside range");
            // downwards the new position is the block start
            assert!(ptr & (min_align - 1) == 0, "C11 down: new position not min-aligned");
        }
    }
}

per_hint! { check_down:
    c11_down_spec_fff = (false, false, false);
    c11_down_spec_fft = (false, false, true);
    c11_down_spec_tff = (true, false, false);
    c11_down_spec_tft = (true, false, true);
    c11_down_spec_ttf = (true, true, false);
    c11_down_spec_ttt = (true, true, true);
}

// ---------------------------------------------------------------------------------------------
// the dummy range never fits anything (claimed / unallocated arena), any hints
// ---------------------------------------------------------------------------------------------

fn any_hints(layout: Layout) -> Hints {
    let h = Hints {
        a: kani::any(),
        s: kani::any(),
        m: kani::any(),
    };
    assume_truthful(h, layout);
    h
}

#[kani::proof]
fn c11_dummy_up() {
    let min_align = any_min_align();
    let layout = any_layout();
    let h = any_hints(layout);
    let (start, end) = any_dummy_range();
    kani::cover!(layout.size() == 0, "zero-sized request on the dummy range");
    assert!(bump_up(props(start, end, min_align, layout, h)).is_none(), "C11: dummy range served bump_up");
}

#[kani::proof]
fn c11_dummy_down() {
    let min_align = any_min_align();
    let layout = any_layout();
    let h = any_hints(layout);
    let (start, end) = any_dummy_range();
    kani::cover!(layout.size() == 0, "zero-sized request on the dummy range");
    assert!(bump_down(props(start, end, min_align, layout, h)).is_none(), "C11: dummy range served bump_down");
}

#[kani::proof]
fn c11_dummy_prepare_up() {
    let min_align = any_min_align();
    let layout = any_array_layout();
    let h = any_hints(layout);
    let (start, end) = any_dummy_range();
    assert!(bump_prepare_up(props(start, end, min_align, layout, h)).is_none(), "C11: dummy range served bump_prepare_up");
}

#[kani::proof]
fn c11_dummy_prepare_down() {
    let min_align = any_min_align();
    let layout = any_array_layout();
    let h = any_hints(layout);
    let (start, end) = any_dummy_range();
    assert!(bump_prepare_down(props(start, end, min_align, layout, h)).is_none(), "C11: dummy range served bump_prepare_down");
}

// ---------------------------------------------------------------------------------------------
// hint independence: same input, symbolic truthful hints vs. no hints, same answer
// ---------------------------------------------------------------------------------------------

#[kani::proof]
fn c11_up_hint_independent() {
    let min_align = any_min_align();
    let layout = any_layout();
    let h = any_hints(layout);
    let dummy: bool = kani::any();
    let (start, end) = if dummy { any_dummy_range() } else { any_regular_range(true, min_align) };

    let with = bump_up(props(start, end, min_align, layout, h));
    let without = bump_up(props(start, end, min_align, layout, Hints { a: false, s: false, m: false }));

    kani::cover!(h.a && h.s && h.m && with.is_some(), "all hints set, fits");
    match (with, without) {
        (None, None) => {}
        (Some(x), Some(y)) => {
            assert!(x.ptr == y.ptr, "C11 up: block depends on hints");
            assert!(x.new_pos == y.new_pos, "C11 up: new position depends on hints");
        }
        _ => panic!("C11 up: fit verdict depends on hints"),
    }
}

#[kani::proof]
fn c11_down_hint_independent() {
    let min_align = any_min_align();
    let layout = any_layout();
    let h = any_hints(layout);
    let dummy: bool = kani::any();
    let (start, end) = if dummy { any_dummy_range() } else { any_regular_range(false, min_align) };

    let with = bump_down(props(start, end, min_align, layout, h));
    let without = bump_down(props(start, end, min_align, layout, Hints { a: false, s: false, m: false }));

    kani::cover!(h.a && h.s && h.m && with.is_some(), "all hints set, fits");
    assert!(with == without, "C11 down: result depends on hints");
}

// ---------------------------------------------------------------------------------------------
// prepare variants (array layouts): largest range with aligned ends, at least as large as asked
// ---------------------------------------------------------------------------------------------

#[kani::proof]
fn c11_prepare_up_spec() {
    let min_align = any_min_align();
    let layout = any_array_layout();
    let h = any_hints(layout);
    let (start, end) = any_regular_range(true, min_align);

    let (s, e, size, align) = (start as u128, end as u128, layout.size() as u128, layout.align() as u128);
    let spec_start = wup(s, align);
    let fits = spec_start + size <= e;

    let r = bump_prepare_up(props(start, end, min_align, layout, h));
    let r0 = bump_prepare_up(props(start, end, min_align, layout, Hints { a: false, s: false, m: false }));

    kani::cover!(r.is_some(), "fits");
    kani::cover!(r.is_none(), "does not fit");
    kani::cover!(r.is_none() && spec_start >= TOP, "aligning start would wrap");

    match &r {
        None => assert!(!fits, "C11 prepare_up: no fit although the request fits"),
        Some(range) => {
            assert!(fits, "C11 prepare_up: range although the request does not fit");
            assert!(range.start as u128 == spec_start, "C11 prepare_up: start is not the first aligned address");
            assert!(range.end as u128 == wdown(e, align), "C11 prepare_up: end is not the last aligned address");
            assert!(range.start >= start && range.end <= end && range.start <= range.end, "C11 prepare_up: outside");
            assert!((range.end - range.start) as u128 >= size, "C11 prepare_up: smaller than requested");
        }
    }
    assert!(r == r0, "C11 prepare_up: result depends on hints");
}

#[kani::proof]
fn c11_prepare_down_spec() {
    let min_align = any_min_align();
    let layout = any_array_layout();
    let h = any_hints(layout);
    let (start, end) = any_regular_range(false, min_align);

    let (s, e, size, align) = (start as u128, end as u128, layout.size() as u128, layout.align() as u128);
    let spec_start = wup(s, align);
    let fits = spec_start + size <= e;

    let r = bump_prepare_down(props(start, end, min_align, layout, h));
    let r0 = bump_prepare_down(props(start, end, min_align, layout, Hints { a: false, s: false, m: false }));

    kani::cover!(r.is_some(), "fits");
    kani::cover!(r.is_none(), "does not fit");

    match &r {
        None => assert!(!fits, "C11 prepare_down: no fit although the request fits"),
        Some(range) => {
            assert!(fits, "C11 prepare_down: range although the request does not fit");
            assert!(range.start as u128 == spec_start, "C11 prepare_down: start is not the first aligned address");
            assert!(range.end as u128 == wdown(e, align), "C11 prepare_down: end is not the last aligned address");
            assert!(range.start >= start && range.end <= end && range.start <= range.end, "C11 prepare_down: outside");
            assert!((range.end - range.start) as u128 >= size, "C11 prepare_down: smaller than requested");
        }
    }
    assert!(r == r0, "C11 prepare_down: result depends on hints");
}

// ---------------------------------------------------------------------------------------------
// canaries: a deliberately false claim must be refuted (vacuity guard for the family)
// ---------------------------------------------------------------------------------------------

#[kani::proof]
fn c11_canary_up() {
    let min_align = any_min_align();
    let layout = any_layout();
    let (start, end) = any_regular_range(true, min_align);
    let r = bump_up(props(start, end, min_align, layout, Hints { a: false, s: false, m: false }));
    // false: "the block always starts exactly at `start`"
    if let Some(b) = r {
        assert!(b.ptr == start, "CANARY");
    }
}

#[kani::proof]
fn c11_canary_down() {
    let min_align = any_min_align();
    let layout = any_layout();
    let (start, end) = any_regular_range(false, min_align);
    let r = bump_down(props(start, end, min_align, layout, Hints { a: false, s: false, m: false }));
    if let Some(p) = r {
        assert!(p + layout.size() == end, "CANARY");
    }
}
