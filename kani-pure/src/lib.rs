//! E-pure: Kani harnesses over the *very files* the library compiles:
//! `/repo/src/bumping.rs` and `/repo/src/chunk/size_config.rs` (both `#![forbid(unsafe_code)]`
//! and importing nothing but `core`). Loop-free: no unwinding bound; the verdict covers every
//! 64-bit input that satisfies the stated preconditions.
#![allow(clippy::all)]

#[path = "/repo/src/bumping.rs"]
pub mod bumping;

#[path = "/repo/src/chunk/size_config.rs"]
pub mod size_config;

#[cfg(kani)]
mod c11;
#[cfg(kani)]
mod c12;
