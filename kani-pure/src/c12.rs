//! C12 — a fresh chunk always fits the request that caused it; sizes never wrap.
//!
//! Functions encoded: `ChunkSizeConfig::{calc_hint_from_capacity, calc_hint_from_capacity_bytes,
//! calc_size_from_hint, align_size}` from `/repo/src/chunk/size_config.rs` composed with the real
//! `bump_up` / `bump_down` / `bump_prepare_up` / `bump_prepare_down` from `/repo/src/bumping.rs`.
//!
//! Trusted glue (a model, cross-checked against the real arena by the `kani-arena` C12 harnesses):
//!  * `header_layout`: `#[repr(C, align(16))] struct ChunkHeader<A> { 4 pointers, allocator: A }`
//!  * `create`: the composition done by `ChunkSizeHint::for_capacity / max / calc_size`, `ChunkSize::layout`,
//!    `NonDummyChunk::append_for / grow_size` and the placement of header and content range by `NonDummyChunk::new`.

use crate::bumping::*;
use crate::c11::{Hints, any_array_layout, any_layout, any_min_align, assume_truthful, props};
use crate::size_config::ChunkSizeConfig;
use core::alloc::Layout;

/// Layout of `ChunkHeader<A>` for a base allocator value of layout (a_size, a_align).
fn header_layout(a_size: usize, a_align: usize) -> Layout {
    let align = if a_align > 16 { a_align } else { 16 };
    let off = (32 + (a_align - 1)) & !(a_align - 1);
    let size = (off + a_size + (align - 1)) & !(align - 1);
    Layout::from_size_align(size, align).unwrap()
}

/// Any base-allocator value layout with size 0..=256 and alignment 1..=256 (size a multiple of the alignment).
fn any_header_layout() -> Layout {
    let k: u32 = kani::any();
    kani::assume(k <= 8);
    let a_align = 1usize << k;
    let a_size: usize = kani::any();
    kani::assume(a_size <= 256);
    kani::assume(a_size & (a_align - 1) == 0);
    header_layout(a_size, a_align)
}

fn config(up: bool, hdr: Layout) -> ChunkSizeConfig {
    ChunkSizeConfig {
        up,
        assumed_malloc_overhead_layout: Layout::new::<[usize; 2]>(),
        chunk_header_layout: hdr,
    }
}

struct Created {
    /// size asked of the base allocator
    requested: usize,
    /// chunk size after `align_size(granted)`
    size: usize,
    content_start: usize,
    content_end: usize,
}

/// The size pipeline of chunk creation; `None` = reported as allocation error (capacity overflow / base refusal).
/// `prev_size` = size of the previous chunk (0: there is none), `minimum` = `MINIMUM_CHUNK_SIZE`.
fn create(cfg: ChunkSizeConfig, layout: Layout, prev_size: usize, minimum: usize) -> Option<Created> {
    let hdr = cfg.chunk_header_layout;
    // ChunkSizeHint::for_capacity
    let required = cfg.calc_hint_from_capacity(layout)?;
    // NonDummyChunk::grow_size
    let grown = prev_size.checked_mul(2)?;
    // ChunkSizeHint::max, ChunkSizeHint::calc_size
    let hint = if required > grown { required } else { grown };
    let hint = if hint > minimum { hint } else { minimum };
    let requested = cfg.calc_size_from_hint(hint)?.get();
    // ChunkSize::layout
    let _chunk_layout = Layout::from_size_align(requested, hdr.align()).ok()?;

    // the base allocator: any address aligned as requested, any granted size >= requested that stays in the address space
    let addr: usize = kani::any();
    let slack: usize = kani::any();
    kani::assume(addr != 0 && addr & (hdr.align() - 1) == 0);
    let granted = requested.checked_add(slack);
    kani::assume(granted.is_some());
    let granted = granted.unwrap();
    kani::assume(granted <= isize::MAX as usize);
    kani::assume(addr.checked_add(granted).is_some());

    // NonDummyChunk::new
    let size = cfg.align_size(granted);
    let (content_start, content_end) = if cfg.up { (addr + hdr.size(), addr + size) } else { (addr, addr + size - hdr.size()) };
    Some(Created {
        requested,
        size,
        content_start,
        content_end,
    })
}

fn any_prev_size() -> usize {
    let p: usize = kani::any();
    kani::assume(p & 15 == 0);
    p
}

fn check_sizes(cfg: ChunkSizeConfig, layout: Layout, prev: usize, c: &Created) {
    let hdr = cfg.chunk_header_layout;
    assert!(c.requested & 15 == 0, "C12: requested chunk size not a multiple of 16");
    assert!(c.size & 15 == 0, "C12: chunk size not a multiple of 16");
    if !cfg.up {
        assert!(c.requested & (hdr.align() - 1) == 0, "C12: requested size not a multiple of the header alignment (down)");
        assert!(c.size & (hdr.align() - 1) == 0, "C12: chunk size not a multiple of the header alignment (down)");
    }
    // fits the block: between requested and granted
    assert!(c.size >= c.requested, "C12: aligned-down granted size smaller than requested");
    // header + requested capacity (wide: a wrapped size would be tiny)
    assert!(c.requested as u128 >= hdr.size() as u128 + layout.size() as u128, "C12: chunk too small for header + capacity");
    // doubling rule
    assert!(c.requested as u128 + 16 >= 2 * prev as u128, "C12: later chunk smaller than twice the previous one less 16");
    assert!(c.content_start <= c.content_end, "C12: negative capacity");
}

fn check_create(up: bool) {
    let hdr = any_header_layout();
    let cfg = config(up, hdr);
    let layout = any_layout();
    let prev = any_prev_size();
    let minimum: usize = kani::any();

    let created = create(cfg, layout, prev, minimum);

    kani::cover!(created.is_some(), "chunk created");
    kani::cover!(created.is_none(), "overflow reported");
    kani::cover!(created.is_some() && layout.align() > 4096, "chunk created for a huge alignment");
    kani::cover!(created.is_some() && hdr.align() > 16 && hdr.size() > 64, "over-aligned stateful base allocator");

    let Some(c) = created else {
        // no spurious failure: small requests never overflow
        let small = (layout.size() as u128) < (1u128 << 61) && (layout.align() as u128) < (1u128 << 61) && (prev as u128) < (1u128 << 61) && (minimum as u128) < (1u128 << 61);
        assert!(!small, "C12: size computation failed although nothing overflows");
        return;
    };
    check_sizes(cfg, layout, prev, &c);

    // the layout that caused the chunk fits, for every minimum alignment and all truthful hints
    let min_align = any_min_align();
    let h = Hints {
        a: kani::any(),
        s: kani::any(),
        m: kani::any(),
    };
    assume_truthful(h, layout);
    if up {
        let r = bump_up(props(c.content_start, c.content_end, min_align, layout, h));
        assert!(r.is_some(), "C12: fresh chunk does not fit the layout that caused it (up)");
    } else {
        let r = bump_down(props(c.content_start, c.content_end, min_align, layout, h));
        assert!(r.is_some(), "C12: fresh chunk does not fit the layout that caused it (down)");
    }
}

#[kani::proof]
fn c12_create_fits_up() {
    check_create(true);
}

#[kani::proof]
fn c12_create_fits_down() {
    check_create(false);
}

fn check_create_prepare(up: bool) {
    let hdr = any_header_layout();
    let cfg = config(up, hdr);
    let layout = any_array_layout();
    let prev = any_prev_size();
    let minimum: usize = kani::any();
    let Some(c) = create(cfg, layout, prev, minimum) else { return };
    kani::cover!(layout.align() > 16, "array layout with alignment > 16");
    let min_align = any_min_align();
    let h = Hints {
        a: kani::any(),
        s: kani::any(),
        m: kani::any(),
    };
    assume_truthful(h, layout);
    let r = if up {
        bump_prepare_up(props(c.content_start, c.content_end, min_align, layout, h))
    } else {
        bump_prepare_down(props(c.content_start, c.content_end, min_align, layout, h))
    };
    assert!(r.is_some(), "C12: fresh chunk does not fit the prepared slice allocation that caused it");
}

#[kani::proof]
fn c12_create_fits_prepare_up() {
    check_create_prepare(true);
}

#[kani::proof]
fn c12_create_fits_prepare_down() {
    check_create_prepare(false);
}

/// `reserve(additional)` / `Bump::with_size`-style creation: hint from bytes / from a raw size hint.
fn check_hint_only(up: bool) {
    let hdr = any_header_layout();
    let cfg = config(up, hdr);
    let hint: usize = kani::any();
    let r = cfg.calc_size_from_hint(hint);
    kani::cover!(r.is_some() && hint > 4096, "big hint");
    kani::cover!(r.is_some() && hint == 0, "zero hint");
    kani::cover!(r.is_none(), "overflow reported");
    match r {
        None => assert!(hint as u128 > (1u128 << 62), "C12: calc_size_from_hint failed on a small hint"),
        Some(size) => {
            let size = size.get();
            assert!(size & 15 == 0, "C12: size not multiple of 16");
            if !up {
                assert!(size & (hdr.align() - 1) == 0, "C12: size not multiple of header align (down)");
            }
            assert!(size >= hdr.size(), "C12: size smaller than the header");
            // the hint is honoured up to the 16 bytes of assumed base-allocator overhead
            assert!(size as u128 + 16 >= hint as u128, "C12: size smaller than the hint less 16");
            // align_size of anything granted >= size stays within [size, granted]
            let slack: usize = kani::any();
            if let Some(granted) = size.checked_add(slack) {
                let a = cfg.align_size(granted);
                assert!(a >= size && a <= granted && a & 15 == 0, "C12: align_size leaves the [requested, granted] window");
            }
        }
    }
}

#[kani::proof]
fn c12_size_from_hint_up() {
    check_hint_only(true);
}

#[kani::proof]
fn c12_size_from_hint_down() {
    check_hint_only(false);
}

#[kani::proof]
fn c12_canary_create() {
    // false claim: "the chunk has capacity for twice the layout"
    let hdr = any_header_layout();
    let cfg = config(true, hdr);
    let layout = any_layout();
    let Some(c) = create(cfg, layout, 0, 0) else { return };
    assert!((c.content_end - c.content_start) as u128 >= 2 * layout.size() as u128 + 64, "CANARY");
}
